// C07 / C10 harnesses — child module of `syntax::scanner` (sees Lexer's private cursor).
#![allow(dead_code, unused)]
use super::*;

/// UTF-8 validity for the modelled alphabet: ASCII and 2-byte sequences.
fn valid_text<const N: usize>(t: &[u8; N]) -> bool {
    let mut i = 0;
    while i < N {
        if t[i] < 0x80 {
            i += 1;
        } else if t[i] >= 0xC2 && t[i] <= 0xDF && i + 1 < N && t[i + 1] >= 0x80 && t[i + 1] <= 0xBF {
            i += 2;
        } else if t[i] >= 0xE0 && t[i] <= 0xEF && i + 2 < N
            && t[i + 1] >= (if t[i] == 0xE0 { 0xA0 } else { 0x80 })
            && t[i + 1] <= (if t[i] == 0xED { 0x9F } else { 0xBF })
            && t[i + 2] >= 0x80 && t[i + 2] <= 0xBF
        {
            // 3-byte sequences (no overlong forms, no surrogates)
            i += 3;
        } else {
            return false;
        }
    }
    true
}

fn boundary<const N: usize>(t: &[u8; N], i: usize) -> bool {
    i == N || (i < N && (t[i] & 0xC0) != 0x80)
}

fn any_text<const N: usize>() -> [u8; N] {
    let mut t = [0u8; N];
    let mut i = 0;
    while i < N {
        t[i] = kani::any();
        i += 1;
    }
    kani::assume(valid_text(&t));
    t
}

fn lexer_at<'a, const N: usize>(t: &'a [u8; N], arena: &'a Arena, pos: usize) -> Lexer<'a, 'a> {
    Lexer { errors: Diagnostics::new(arena), src: &t[..], arena, pos, len: N }
}

/// I07: cursor inside the text and on a character boundary.
fn cursor_ok<const N: usize>(lx: &Lexer<'_, '_>, t: &[u8; N]) -> bool {
    lx.pos <= N && boundary(t, lx.pos)
}

fn span_ok<const N: usize>(t: &[u8; N], s: Span) -> bool {
    s.start <= s.end && s.end <= N && boundary(t, s.start) && boundary(t, s.end)
}

/// Every diagnostic and label span lies inside the text, is ordered and on boundaries.
fn diags_ok<const N: usize>(lx: &Lexer<'_, '_>, t: &[u8; N]) -> bool {
    let mut i = 0;
    while i < lx.errors.diagnostics.len() {
        let d = &lx.errors.diagnostics[i];
        if !span_ok(t, d.span) {
            return false;
        }
        let mut j = 0;
        while j < d.labels.len() {
            if !span_ok(t, d.labels[j].span) {
                return false;
            }
            j += 1;
        }
        i += 1;
    }
    true
}

/// A borrowed lexeme is a sub-slice of the text on character boundaries.
fn lexeme_ok<const N: usize>(t: &[u8; N], s: &str) -> bool {
    let off = (s.as_ptr() as usize).wrapping_sub(t.as_ptr() as usize);
    off <= N && s.len() <= N - off && boundary(t, off) && boundary(t, off + s.len())
}

fn owned_utf8_ok(s: &str) -> bool {
    let b = s.as_bytes();
    let mut i = 0;
    while i < b.len() {
        if b[i] < 0x80 {
            i += 1;
        } else if b[i] >= 0xC2 && b[i] <= 0xDF && i + 1 < b.len() && b[i + 1] >= 0x80 && b[i + 1] <= 0xBF {
            i += 2;
        } else if b[i] >= 0xE0 && b[i] <= 0xEF && i + 2 < b.len()
            && b[i + 1] >= (if b[i] == 0xE0 { 0xA0 } else { 0x80 })
            && b[i + 1] <= (if b[i] == 0xED { 0x9F } else { 0xBF })
            && b[i + 2] >= 0x80 && b[i + 2] <= 0xBF
        {
            i += 3;
        } else {
            return false;
        }
    }
    true
}

/// Number / identifier lexemes start at the token start and spell the text there (the
/// scanner returns static literals for `if` / `small`, so this is by content, not by pointer).
fn spelled_at<const N: usize>(t: &[u8; N], start: usize, s: &str) -> bool {
    let b = s.as_bytes();
    if start > N || b.len() > N - start {
        return false;
    }
    let mut i = 0;
    while i < b.len() {
        if b[i] != t[start + i] {
            return false;
        }
        i += 1;
    }
    true
}

fn token_ok<const N: usize>(t: &[u8; N], start: usize, tok: &Token<'_>) -> bool {
    match tok {
        Token::Number(s) | Token::Identifier(s) => spelled_at(t, start, s),
        Token::String(ArenaCow::Borrowed(s)) => lexeme_ok(t, s),
        Token::String(ArenaCow::Owned(s)) => owned_utf8_ok(s.as_str()),
        _ => true,
    }
}

macro_rules! lex_proof {
    ($(#[$m:meta])* fn $name:ident() $body:block) => {
        #[kani::proof]
        #[kani::stub(crate::sys::unix::UnixVirtualMemory::reserve, crate::verif_common::reserve_512)]
        #[kani::stub(crate::sys::unix::UnixVirtualMemory::commit, crate::verif_common::commit_ok)]
        #[kani::stub(crate::sys::unix::UnixVirtualMemory::decommit, crate::verif_common::vm_nop)]
        #[kani::stub(crate::sys::unix::UnixVirtualMemory::release, crate::verif_common::vm_nop)]
        #[kani::stub(memchr_rs::memchr2::memchr2, crate::verif_common::memchr2)]
        #[kani::stub(core::fmt::write, crate::verif_common::fmt_write)]
        #[kani::stub(crate::syntax::scanner::Lexer::emit_error, crate::syntax::scanner::Lexer::verif_emit_error)]
        #[kani::stub(crate::arena::string::ArenaString::new_in, crate::arena::string::ArenaString::verif_new_in)]
        #[kani::stub(crate::arena::string::ArenaString::reserve_exact, crate::arena::string::ArenaString::verif_reserve_exact)]
        #[kani::stub(crate::arena::string::ArenaString::push_str, crate::arena::string::ArenaString::verif_push_str)]
        #[kani::stub(crate::arena::string::ArenaString::push, crate::arena::string::ArenaString::verif_push)]
        $(#[$m])*
        fn $name() $body
    };
}

// ---- 7.a helper routines from an arbitrary cursor ------------------------------------
fn helpers_step<const N: usize>(p: usize) {
    let arena = Arena::new(1).unwrap();
    let t = any_text::<N>();
    kani::assume(boundary(&t, p));
    let which: u8 = kani::any();
    kani::assume(which < 7);
    let mut lx = lexer_at(&t, &arena, p);
    match which {
        0 => lx.skip_whitespace(),
        1 => {
            kani::assume(p < N && t[p] == b'#');
            lx.skip_comment();
        }
        2 => {
            let w = lx.read_word();
            assert!(lexeme_ok(&t, w), "lexeme: read_word returns a sub-slice on boundaries");
        }
        3 => {
            let _ = lx.try_consume_word("to");
        }
        4 => {
            let _ = lx.try_consume_word("say");
        }
        5 => {
            let _ = lx.try_consume_word("pass");
        }
        _ => {
            kani::assume(p < N);
            let _ = lx.scan_punctuation(t[p]);
        }
    }
    assert!(cursor_ok(&lx, &t), "cursor: inside the text and on a character boundary");
    assert!(lx.pos >= p, "cursor: never moves backwards");
    kani::cover!(p >= N || (which == 0 && lx.pos > p), "whitespace skipped");
    kani::cover!(p >= N || (which == 1 && lx.pos == N), "comment to end of text");
    std::mem::forget(lx);
    std::mem::forget(arena);
}
macro_rules! helpers_step {
    ($name:ident, $n:literal, $p:literal, $unw:literal) => {
        lex_proof! { #[kani::unwind($unw)] fn $name() { helpers_step::<$n>($p) } }
    };
}

// ---- contract stub for emit_error: checks the spans it is handed, allocates nothing ---------
static mut BAD_SPAN: bool = false;
static mut DIAG_COUNT: usize = 0;
fn span_ok_dyn(src: &[u8], s: Span) -> bool {
    let b = |i: usize| i == src.len() || (i < src.len() && (src[i] & 0xC0) != 0x80);
    s.start <= s.end && s.end <= src.len() && b(s.start) && b(s.end)
}
impl<'arena, 'input: 'arena> Lexer<'arena, 'input> {
    fn verif_emit_error(&mut self, span: Span, _error: LexError, label: Vec<Label<'arena>>) {
        let mut ok = span_ok_dyn(self.src, span);
        let mut i = 0;
        while i < label.len() {
            ok = ok && span_ok_dyn(self.src, label[i].span);
            i += 1;
        }
        unsafe {
            DIAG_COUNT += 1;
            if !ok {
                BAD_SPAN = true;
            }
        }
        std::mem::forget(label);
    }
}

// ---- contract stub for the recursive next_token call in scan_number -------------------------
static mut REENTRY_CURSOR_BAD: bool = false;
static mut REENTRY_COUNT: usize = 0;
impl<'arena, 'input: 'arena> Lexer<'arena, 'input> {
    /// Checks the callee's precondition (I07) at the call site and returns an arbitrary token.
    fn verif_next_token_contract(&mut self) -> SpannedToken<'arena> {
        let pos = self.pos;
        let ok = pos <= self.len && (pos == self.len || (self.src[pos] & 0xC0) != 0x80);
        unsafe {
            REENTRY_COUNT += 1;
            if !ok {
                REENTRY_CURSOR_BAD = true;
            }
        }
        SpannedToken { token: Token::EOF, span: Range::from(self.len..self.len) }
    }
}

// ---- 7.b / 7.c / 7.d scanning routines from an arbitrary cursor -------------------------------
fn scan_step<const N: usize>(p: usize, which: u8) {
    let arena = Arena::new(1).unwrap();
    let arena: &'static Arena = unsafe { &*(&arena as *const Arena) };
    let t = any_text::<N>();
    kani::assume(p < N && boundary(&t, p));
    let mut lx = lexer_at(&t, arena, p);
    unsafe {
        REENTRY_CURSOR_BAD = false;
        REENTRY_COUNT = 0;
        BAD_SPAN = false;
        DIAG_COUNT = 0;
    }
    let tok = match which {
        0 => {
            kani::assume(t[p].is_ascii_digit());
            lx.scan_number(p)
        }
        1 => {
            kani::assume(t[p].is_ascii_alphabetic() || t[p] == b'_');
            lx.scan_identifier_or_keyword(p)
        }
        _ => {
            kani::assume(t[p] == b'"' || t[p] == b'\'');
            lx.scan_string(p, t[p])
        }
    };
    assert!(unsafe { !REENTRY_CURSOR_BAD }, "reentry-cursor: next_token re-entered with the cursor past the end or inside a character");
    assert!(cursor_ok(&lx, &t), "cursor: inside the text and on a character boundary");
    assert!(lx.pos > p || unsafe { REENTRY_COUNT > 0 }, "progress: the routine consumes at least one byte");
    assert!(unsafe { !BAD_SPAN }, "spans: every diagnostic/label span is inside the text, ordered and on boundaries");
    assert!(token_ok(&t, p, &tok), "lexeme: token text is a boundary-aligned sub-slice (or valid UTF-8 when owned)");
    kani::cover!(which == 1 || N - p < 2 || unsafe { DIAG_COUNT > 0 }, "a diagnostic was emitted");
    kani::cover!((which == 2 && N - p < 2) || (unsafe { DIAG_COUNT == 0 } && lx.pos == N), "clean token to end of text");
    std::mem::forget(tok);
    std::mem::forget(lx);
}
macro_rules! scan_step {
    ($name:ident, $n:literal, $p:literal, $which:literal, $unw:literal) => {
        lex_proof! {
            #[kani::stub(crate::syntax::scanner::Lexer::next_token, crate::syntax::scanner::Lexer::verif_next_token_contract)]
            #[kani::unwind($unw)]
            fn $name() { scan_step::<$n>($p, $which) }
        }
    };
}

// ---- 7.e the dispatcher: the three scanning routines are replaced by their guarantee
// (established by 7.b-7.d): the cursor advances to some later character boundary.
impl<'arena, 'input: 'arena> Lexer<'arena, 'input> {
    fn verif_advance(&mut self) {
        let np: usize = kani::any();
        kani::assume(np > self.pos && np <= self.len);
        kani::assume(np == self.len || (self.src[np] & 0xC0) != 0x80);
        self.pos = np;
    }
    fn verif_scan_number_contract(&mut self, _start: usize) -> Token<'arena> {
        self.verif_advance();
        if kani::any() { Token::Comma } else { Token::EOF }
    }
    fn verif_scan_ident_contract(&mut self, _start: usize) -> Token<'arena> {
        self.verif_advance();
        Token::Comma
    }
    fn verif_scan_string_contract(&mut self, _start: usize, _quote: u8) -> Token<'arena> {
        self.verif_advance();
        Token::Comma
    }
}

fn next_token_step<const N: usize>(p: usize) {
    let arena = Arena::new(1).unwrap();
    let arena: &'static Arena = unsafe { &*(&arena as *const Arena) };
    let t = any_text::<N>();
    kani::assume(p <= N && boundary(&t, p));
    let mut lx = lexer_at(&t, arena, p);
    unsafe {
        BAD_SPAN = false;
        DIAG_COUNT = 0;
    }
    let st = lx.next_token();
    assert!(cursor_ok(&lx, &t), "cursor: inside the text and on a character boundary");
    assert!(span_ok(&t, st.span), "token-span: ordered, inside the text, on boundaries");
    assert!(st.span.end <= lx.pos && st.span.start >= p, "token-span: between the old and the new cursor");
    assert!((matches!(st.token, Token::EOF) && lx.pos >= N) || lx.pos > p, "progress: EOF at the end or the cursor advanced");
    assert!(unsafe { !BAD_SPAN }, "spans: every diagnostic/label span is inside the text, ordered and on boundaries");
    assert!(token_ok(&t, st.span.start, &st.token), "lexeme: token text is a boundary-aligned sub-slice (or valid UTF-8 when owned)");
    kani::cover!(p >= N || !matches!(st.token, Token::EOF), "a token was produced");
    kani::cover!(p >= N || unsafe { DIAG_COUNT > 0 }, "a diagnostic was emitted");
    std::mem::forget(st);
    std::mem::forget(lx);
}
macro_rules! next_token_step {
    ($name:ident, $n:literal, $p:literal, $unw:literal) => {
        lex_proof! {
            #[kani::stub(crate::syntax::scanner::Lexer::scan_number, crate::syntax::scanner::Lexer::verif_scan_number_contract)]
            #[kani::stub(crate::syntax::scanner::Lexer::scan_identifier_or_keyword, crate::syntax::scanner::Lexer::verif_scan_ident_contract)]
            #[kani::stub(crate::syntax::scanner::Lexer::scan_string, crate::syntax::scanner::Lexer::verif_scan_string_contract)]
            #[kani::unwind($unw)]
            fn $name() { next_token_step::<$n>($p) }
        }
    };
}

// =====================================================================================
// C10 — layout insignificance (relational obligations)
// =====================================================================================

// Deterministic models of the three scanning routines (functions of (src, pos) only), used
// where the *dispatcher's* separator handling is the subject: whatever routine runs after the
// separator sees the same (text, cursor) in both runs and therefore does the same thing.
impl<'arena, 'input: 'arena> Lexer<'arena, 'input> {
    fn verif_run_to_space(&mut self) {
        while self.pos < self.len && !self.src[self.pos].is_ascii_whitespace() {
            self.pos += 1;
        }
    }
    fn verif_scan_number_det(&mut self, _start: usize) -> Token<'arena> {
        self.verif_run_to_space();
        Token::Comma
    }
    fn verif_scan_ident_det(&mut self, _start: usize) -> Token<'arena> {
        self.verif_run_to_space();
        Token::Dot
    }
    fn verif_scan_string_det(&mut self, _start: usize, _quote: u8) -> Token<'arena> {
        self.verif_run_to_space();
        Token::LParen
    }
    /// deterministic stand-in for the recursive re-entry inside scan_number
    fn verif_next_token_det(&mut self) -> SpannedToken<'arena> {
        SpannedToken { token: Token::EOF, span: Range::from(self.pos..self.pos) }
    }
}

fn kind(t: &Token<'_>) -> u8 {
    match t {
        Token::EOF => 0,
        Token::Comma => 1,
        Token::Dot => 2,
        Token::LParen => 3,
        Token::RParen => 4,
        Token::LBracket => 5,
        Token::RBracket => 6,
        Token::Number(_) => 7,
        Token::Identifier(_) => 8,
        Token::String(_) => 9,
        Token::IfToSay => 10,
        Token::IfNotSo => 11,
        Token::SmallPass => 12,
        _ => 13,
    }
}

fn lexeme_bytes<'a>(t: &'a Token<'_>) -> &'a [u8] {
    match t {
        Token::Number(s) | Token::Identifier(s) => s.as_bytes(),
        Token::String(s) => s.as_bytes(),
        _ => &[],
    }
}

fn same_token(a: &Token<'_>, b: &Token<'_>) -> bool {
    if kind(a) != kind(b) {
        return false;
    }
    if kind(a) == 13 {
        return std::mem::discriminant(a) == std::mem::discriminant(b);
    }
    let (x, y) = (lexeme_bytes(a), lexeme_bytes(b));
    if x.len() != y.len() {
        return false;
    }
    let mut i = 0;
    while i < x.len() {
        if x[i] != y[i] {
            return false;
        }
        i += 1;
    }
    true
}

/// 10.a: starting before a separator == starting after it.  The text is S ++ suffix with a
/// concrete separator shape S of K bytes (comment bodies symbolic) and a symbolic suffix.
fn separator_skip<const N: usize, const K: usize>(sep: [u8; K]) {
    let arena = Arena::new(1).unwrap();
    let arena: &'static Arena = unsafe { &*(&arena as *const Arena) };
    let mut t = any_text::<N>();
    let mut i = 0;
    while i < K {
        if sep[i] == b'c' {
            // comment body byte: anything but a line break
            kani::assume(t[i] != b'\n' && t[i] != b'\r' && t[i] < 0x80);
        } else {
            kani::assume(t[i] == sep[i]);
        }
        i += 1;
    }
    // "\r" alone ends a comment; the byte after the separator is unconstrained
    unsafe {
        BAD_SPAN = false;
        DIAG_COUNT = 0;
    }
    let mut a = lexer_at(&t, arena, 0);
    let ta = a.next_token();
    let da = unsafe { DIAG_COUNT };
    let mut b = lexer_at(&t, arena, K);
    let tb = b.next_token();
    let db = unsafe { DIAG_COUNT } - da;
    assert!(same_token(&ta.token, &tb.token), "separator: same next token with and without the separator");
    assert!(ta.span == tb.span, "separator: same token span");
    assert!(a.pos == b.pos, "separator: same cursor afterwards");
    assert!(da == db, "separator: the separator produces no diagnostic of its own");
    kani::cover!(N == K || !matches!(ta.token, Token::EOF), "a token follows the separator");
    kani::cover!(N == K || a.pos > K + 1 || matches!(ta.token, Token::EOF), "suffix longer than one byte consumed");
    std::mem::forget(ta);
    std::mem::forget(tb);
    std::mem::forget(a);
    std::mem::forget(b);
}
macro_rules! separator_skip {
    ($name:ident, $n:literal, $k:literal, $sep:expr, $unw:literal) => {
        lex_proof! {
            #[kani::stub(crate::syntax::scanner::Lexer::scan_number, crate::syntax::scanner::Lexer::verif_scan_number_det)]
            #[kani::stub(crate::syntax::scanner::Lexer::scan_identifier_or_keyword, crate::syntax::scanner::Lexer::verif_scan_ident_det)]
            #[kani::stub(crate::syntax::scanner::Lexer::scan_string, crate::syntax::scanner::Lexer::verif_scan_string_det)]
            #[kani::unwind($unw)]
            fn $name() { separator_skip::<$n, $k>($sep) }
        }
    };
}

/// 10.a': translation invariance of a scanning routine: on T at cursor 0 and on P ++ T at
/// cursor K (same symbolic T) the routine returns the same token and corresponding cursors.
static mut SPAN_SUM: usize = 0;
fn translation<const N: usize, const M: usize>(which: u8) {
    // M == N + 1: one arbitrary ASCII prefix byte
    let arena = Arena::new(1).unwrap();
    let arena: &'static Arena = unsafe { &*(&arena as *const Arena) };
    let t = any_text::<N>();
    let mut u = [0u8; M];
    let pre: u8 = kani::any();
    kani::assume(pre < 0x80);
    u[0] = pre;
    let mut i = 0;
    while i < N {
        u[i + 1] = t[i];
        i += 1;
    }
    kani::assume(N > 0);
    match which {
        0 => kani::assume(t[0].is_ascii_digit()),
        1 => kani::assume(t[0].is_ascii_alphabetic() || t[0] == b'_'),
        _ => kani::assume(t[0] == b'"' || t[0] == b'\''),
    }
    unsafe {
        BAD_SPAN = false;
        DIAG_COUNT = 0;
    }
    let mut a = lexer_at(&t, arena, 0);
    let ta = match which {
        0 => a.scan_number(0),
        1 => a.scan_identifier_or_keyword(0),
        _ => a.scan_string(0, t[0]),
    };
    let da = unsafe { DIAG_COUNT };
    let mut b = lexer_at(&u, arena, 1);
    let tb = match which {
        0 => b.scan_number(1),
        1 => b.scan_identifier_or_keyword(1),
        _ => b.scan_string(1, u[1]),
    };
    let db = unsafe { DIAG_COUNT } - da;
    assert!(same_token(&ta, &tb), "translation: same token wherever the text sits");
    assert!(b.pos == a.pos + 1, "translation: cursors correspond");
    assert!(da == db, "translation: same number of diagnostics");
    kani::cover!(N < 2 || da > 0 || which == 1, "a diagnostic in both runs");
    kani::cover!(a.pos == N, "routine consumed the whole text");
    std::mem::forget(ta);
    std::mem::forget(tb);
    std::mem::forget(a);
    std::mem::forget(b);
}
macro_rules! translation {
    ($name:ident, $n:literal, $m:literal, $which:literal, $unw:literal) => {
        lex_proof! {
            #[kani::stub(crate::syntax::scanner::Lexer::next_token, crate::syntax::scanner::Lexer::verif_next_token_det)]
            #[kani::unwind($unw)]
            fn $name() { translation::<$n, $m>($which) }
        }
    };
}

/// 10.b: multi-word keywords with any separator run between the words.
/// words: W1 s1 W2 [s2 W3] tail, separators of 1..2 whitespace bytes each (symbolic).
fn multiword<const N: usize>(w1: &[u8], w2: &[u8], w3: &[u8], l1: usize, l2: usize, good: bool, expect: u8) {
    let arena = Arena::new(1).unwrap();
    let arena: &'static Arena = unsafe { &*(&arena as *const Arena) };
    let mut t = [0u8; N];
    let mut o = 0;
    let ws = |b: u8| b == b' ' || b == b'\t' || b == b'\n' || b == b'\r';
    let mut put = |t: &mut [u8; N], o: &mut usize, w: &[u8]| {
        let mut i = 0;
        while i < w.len() {
            t[*o] = w[i];
            *o += 1;
            i += 1;
        }
    };
    put(&mut t, &mut o, w1);
    let end1 = o;
    let mut i = 0;
    while i < l1 {
        let s: u8 = kani::any();
        kani::assume(ws(s));
        t[o] = s;
        o += 1;
        i += 1;
    }
    put(&mut t, &mut o, w2);
    if !w3.is_empty() {
        let mut i = 0;
        while i < l2 {
            let s: u8 = kani::any();
            kani::assume(ws(s));
            t[o] = s;
            o += 1;
            i += 1;
        }
        put(&mut t, &mut o, w3);
    }
    let end = o;
    // what follows the last word: end of text, or a byte that is / is not a word byte
    if o < N {
        let tail: u8 = kani::any();
        kani::assume(tail < 0x80);
        if good {
            // a byte that cannot continue a word (digits are left out on purpose: whether `pass5`
            // is one word is a lexical question, not a layout one)
            kani::assume(!(tail.is_ascii_alphanumeric() || tail == b'_'));
        } else {
            kani::assume(tail.is_ascii_alphabetic() || tail == b'_');
        }
        t[o] = tail;
        o += 1;
    }
    assert!(o == N);
    let mut lx = lexer_at(&t, arena, 0);
    let tok = lx.scan_identifier_or_keyword(0);
    if good || N == end {
        assert!(kind(&tok) == expect, "multiword: the keyword is recognised whatever separates its words");
        assert!(lx.pos == end, "multiword: the cursor ends after the last word");
    } else {
        // a longer last word is not the keyword: roll back to the end of the first word
        assert!(kind(&tok) == 8, "multiword: not a keyword when the last word continues");
        assert!(lx.pos == end1, "multiword: rollback to the end of the first word, independent of the separators");
    }
    kani::cover!(l1 < 2 || (t[end1] == b'\r' && t[end1 + 1] == b'\n'), "CRLF between the words");
    kani::cover!(t[end1] == b'\t', "tab between the words");
    std::mem::forget(tok);
    std::mem::forget(lx);
}
macro_rules! multiword {
    ($name:ident, $n:literal, $w1:expr, $w2:expr, $w3:expr, $l1:literal, $l2:literal, $good:literal, $expect:literal, $unw:literal) => {
        lex_proof! { #[kani::unwind($unw)] fn $name() { multiword::<$n>($w1, $w2, $w3, $l1, $l2, $good, $expect) } }
    };
}
