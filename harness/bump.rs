// C11 harnesses — child module of `arena::bump` (sees private fields of bump::Arena).
#![allow(dead_code, unused, static_mut_refs)]
use super::*;
use std::alloc::{Allocator, Layout};

const CHUNK: usize = ALLOC_CHUNK_SIZE;
const CAP: usize = 4 * ALLOC_CHUNK_SIZE;

// ---- recording environment stubs ------------------------------------------
static mut COMMIT_FAILS: bool = false;
static mut COMMIT_CALLS: usize = 0;
static mut COMMIT_OFF: usize = 0;
static mut COMMIT_LEN: usize = 0;
static mut DECOMMIT_CALLS: usize = 0;
static mut DECOMMIT_OFF: usize = 0;
static mut DECOMMIT_LEN: usize = 0;
static mut BASE_ADDR: usize = 0;

pub(crate) fn rec_commit(base: NonNull<u8>, size: usize) -> Result<(), u32> {
    unsafe {
        COMMIT_CALLS += 1;
        COMMIT_OFF = (base.as_ptr() as usize).wrapping_sub(BASE_ADDR);
        COMMIT_LEN = size;
        if COMMIT_FAILS { Err(12) } else { Ok(()) }
    }
}
pub(crate) fn rec_decommit(base: NonNull<u8>, size: usize) {
    unsafe {
        DECOMMIT_CALLS += 1;
        DECOMMIT_OFF = (base.as_ptr() as usize).wrapping_sub(BASE_ADDR);
        DECOMMIT_LEN = size;
    }
}
pub(crate) fn nop2(_base: NonNull<u8>, _size: usize) {}

macro_rules! bump_proof {
    ($(#[$m:meta])* fn $name:ident() $body:block) => {
        #[kani::proof]
        #[kani::stub(crate::sys::unix::UnixVirtualMemory::reserve, crate::verif_common::reserve_512)]
        #[kani::stub(crate::sys::unix::UnixVirtualMemory::commit, crate::arena::bump::verif_bump::rec_commit)]
        #[kani::stub(crate::sys::unix::UnixVirtualMemory::decommit, crate::arena::bump::verif_bump::rec_decommit)]
        #[kani::stub(crate::sys::unix::UnixVirtualMemory::release, crate::arena::bump::verif_bump::nop2)]
        $(#[$m])*
        fn $name() $body
    };
}

/// Model reservation: `model` bytes standing for a CAP-byte reservation.
fn model_buf(model: usize) -> *mut u8 {
    let layout = Layout::from_size_align(model, 4096).unwrap();
    let buf = unsafe { std::alloc::alloc(layout) };
    kani::assume(!buf.is_null());
    unsafe {
        BASE_ADDR = buf as usize;
        COMMIT_FAILS = kani::any();
    }
    buf
}

/// I11: capacity positive multiple of CHUNK; commit multiple of CHUNK, <= capacity; offset <= commit.
fn any_arena(buf: *mut u8) -> Arena {
    let commit: usize = kani::any();
    let offset: usize = kani::any();
    kani::assume(commit <= CAP && commit % CHUNK == 0);
    kani::assume(offset <= commit);
    Arena {
        base: NonNull::new(buf).unwrap(),
        capacity: CAP,
        commit: Cell::new(commit),
        offset: Cell::new(offset),
        #[cfg(debug_assertions)]
        borrows: Cell::new(0),
    }
}

/// For the scratch harnesses (sibling module): a valid arena over `buf` with offset <= max_off.
pub(crate) fn any_arena_window(buf: *mut u8, max_off: usize) -> Arena {
    let a = any_arena(buf);
    // commit == one chunk: decommit(base + keep) then only happens with keep == 0, which keeps
    // the pointer arithmetic inside the 512-byte model object
    kani::assume(a.offset.get() <= max_off && a.commit.get() == CHUNK);
    a
}
pub(crate) fn model_buf_pub(model: usize) -> *mut u8 {
    let b = model_buf(model);
    unsafe { COMMIT_FAILS = false; }
    b
}
pub(crate) fn state_of(a: &Arena) -> (usize, usize, usize) {
    (a.base.as_ptr() as usize, a.commit.get(), a.offset.get())
}
pub(crate) fn inv_pub(a: &Arena) -> bool {
    inv(a)
}
pub(crate) use bump_proof;

fn inv(a: &Arena) -> bool {
    a.capacity == CAP
        && a.commit.get() <= a.capacity
        && a.commit.get() % CHUNK == 0
        && a.offset.get() <= a.commit.get()
}

fn off_of(buf: *mut u8, p: NonNull<[u8]>) -> usize {
    (p.cast::<u8>().as_ptr() as usize).wrapping_sub(buf as usize)
}

/// Post-condition of a successful allocation of `bytes` with `align` from (off0, com0).
fn check_alloc_ok(a: &Arena, buf: *mut u8, p: NonNull<[u8]>, bytes: usize, align: usize, off0: usize, com0: usize) {
    let beg = off_of(buf, p);
    assert!(p.len() == bytes, "size: block has the requested length");
    assert!(beg >= off0, "disjoint: block starts at or above the previous offset");
    assert!(beg % align == 0, "aligned: offset is a multiple of the alignment");
    assert!(beg < off0 + align, "tight: no more than alignment padding is skipped");
    assert!(beg <= a.commit.get() && bytes <= a.commit.get() - beg, "in-bounds: block inside committed memory");
    assert!(a.commit.get() <= CAP, "in-bounds: commit within the reservation");
    assert!(a.offset.get() == beg + bytes, "offset: new offset is the end of the block");
    assert!(a.commit.get() >= com0, "commit: never shrinks on allocation");
    assert!(inv(a), "invariant: I11 after allocation");
    unsafe {
        if a.commit.get() > com0 {
            assert!(COMMIT_CALLS == 1 && COMMIT_OFF == com0 && COMMIT_LEN == a.commit.get() - com0,
                "commit: exactly the new chunks [commit0, commit') are committed");
        } else {
            assert!(COMMIT_CALLS == 0, "commit: no commit call when the block fits");
        }
    }
}

fn check_alloc_err(a: &Arena, off0: usize, com0: usize) {
    assert!(a.offset.get() == off0, "clean-failure: offset unchanged");
    assert!(a.commit.get() == com0, "clean-failure: commit unchanged");
}

// ---- 11.a allocation, arithmetic instance (full 64-bit sizes) ---------------
// R-profile: no byte of the arena is touched, so the model object may be tiny.
bump_proof! {
    fn alloc_raw_step() {
        let buf = model_buf(CAP);
        let a = any_arena(buf);
        let (off0, com0) = (a.offset.get(), a.commit.get());
        let bytes: usize = kani::any();
        let shift: u8 = kani::any();
        kani::assume(shift <= 12);
        let align = 1usize << shift;
        let r = a.alloc_raw(bytes, align);
        match r {
            Ok(p) => check_alloc_ok(&a, buf, p, bytes, align, off0, com0),
            Err(_) => {
                check_alloc_err(&a, off0, com0);
                // failure only when the request does not fit, or the OS refused to commit
                let beg = (off0 + align - 1) & !(align - 1);
                let fits = bytes <= CAP && beg <= CAP - bytes;
                assert!(!fits || unsafe { COMMIT_FAILS }, "completeness: a request that fits succeeds");
            }
        }
        kani::cover!(r.is_ok() && a.commit.get() == CAP && com0 == 0, "grew from nothing to full capacity");
        kani::cover!(r.is_ok() && a.commit.get() == com0 && bytes > 0, "served from committed memory");
        kani::cover!(r.is_err() && unsafe { !COMMIT_FAILS }, "request beyond capacity fails");
        kani::cover!(r.is_err() && unsafe { COMMIT_FAILS } && bytes <= CHUNK, "commit failure");
        kani::cover!(r.is_ok() && bytes == 0, "zero-size request");
        kani::cover!(bytes > usize::MAX - 4096, "near-usize::MAX request");
        std::mem::forget(a);
    }
}

// Through the Allocator trait with any valid Layout.
bump_proof! {
    fn allocate_layout_step() {
        let buf = model_buf(CAP);
        let a = any_arena(buf);
        let (off0, com0) = (a.offset.get(), a.commit.get());
        let size: usize = kani::any();
        let shift: u8 = kani::any();
        kani::assume(shift <= 12);
        let align = 1usize << shift;
        let layout = Layout::from_size_align(size, align);
        kani::assume(layout.is_ok());
        let layout = layout.unwrap();
        let r = a.allocate(layout);
        match r {
            Ok(p) => check_alloc_ok(&a, buf, p, size, align, off0, com0),
            Err(_) => check_alloc_err(&a, off0, com0),
        }
        kani::cover!(r.is_ok() && size > CHUNK, "multi-chunk allocation");
        kani::cover!(r.is_err(), "layout too large");
        std::mem::forget(a);
    }
}

// alloc_uninit_slice::<T>(count) for symbolic count: the byte size is size_of::<T>() * count.
// (i) a request that fits returns exactly count elements inside the arena;
// (ii) one that does not fit never returns (the routine unwraps: clean panic).  Returning
//      would mean an out-of-bounds slice, the exact thing the property forbids.
macro_rules! alloc_slice_step {
    ($name:ident, $name_nofit:ident, $t:ty) => {
        bump_proof! {
            fn $name() {
                let buf = model_buf(CAP);
                let a = any_arena(buf);
                let (off0, com0) = (a.offset.get(), a.commit.get());
                unsafe { COMMIT_FAILS = false; }
                let count: usize = kani::any();
                let sz = std::mem::size_of::<$t>();
                let al = std::mem::align_of::<$t>();
                let beg0 = (off0 + al - 1) & !(al - 1);
                kani::assume(count <= CAP / sz && beg0 <= CAP - count * sz); // fits
                let s = a.alloc_uninit_slice::<$t>(count);
                let beg = (s.as_ptr() as usize).wrapping_sub(buf as usize);
                assert!(s.len() == count, "size: slice has count elements");
                assert!(beg == beg0, "aligned: slice starts at the aligned offset");
                assert!(count * sz <= a.commit.get() - beg, "in-bounds: slice inside committed memory");
                assert!(a.offset.get() == beg + count * sz, "offset: end of the slice");
                assert!(inv(&a), "invariant: I11 after slice allocation");
                kani::cover!(count > 0 && a.commit.get() > com0, "slice allocation grows commit");
                std::mem::forget(a);
            }
        }
        bump_proof! {
            #[kani::should_panic]
            fn $name_nofit() {
                let buf = model_buf(CAP);
                let a = any_arena(buf);
                let off0 = a.offset.get();
                unsafe { COMMIT_FAILS = false; }
                let count: usize = kani::any();
                let sz = std::mem::size_of::<$t>();
                let al = std::mem::align_of::<$t>();
                let beg0 = (off0 + al - 1) & !(al - 1);
                kani::assume(!(count <= CAP / sz && beg0 <= CAP - count * sz)); // does not fit
                let s = a.alloc_uninit_slice::<$t>(count);
                kani::cover!(true, "never: an oversized slice request returned a slice (out of bounds)");
                std::mem::forget(a);
            }
        }
    };
}

// ---- 11.a content instance (A-profile incl. the 0xCD fill; 512-byte window) ----
bump_proof! {
    fn alloc_window_step() {
        let buf = model_buf(512);
        let a = any_arena(buf);
        let (off0, com0) = (a.offset.get(), a.commit.get());
        kani::assume(off0 <= 192 && com0 >= CHUNK);
        // an earlier block [0, off0) carries a tag in its last 8 bytes
        let tag: u64 = kani::any();
        kani::assume(off0 >= 8);
        unsafe { (buf.add(off0 - 8) as *mut u64).write_unaligned(tag) };
        let bytes: usize = kani::any();
        let shift: u8 = kani::any();
        kani::assume(bytes <= 64 && shift <= 6);
        let align = 1usize << shift;
        let zeroed: bool = kani::any();
        let layout = Layout::from_size_align(bytes, align).unwrap();
        let r = if zeroed { a.allocate_zeroed(layout) } else { a.allocate(layout) };
        let p = r.unwrap(); // fits: off0 + 64 + 64 <= commit
        check_alloc_ok(&a, buf, p, bytes, align, off0, com0);
        // writable and readable; earlier block untouched (also by the debug fill)
        let beg = off_of(buf, p);
        if bytes > 0 {
            let i: usize = kani::any();
            kani::assume(i < bytes);
            if zeroed {
                assert!(unsafe { *buf.add(beg + i) } == 0, "zeroed: allocate_zeroed returns zero bytes");
            }
            unsafe { *buf.add(beg + i) = 0xA5 };
            assert!(unsafe { *buf.add(beg + i) } == 0xA5, "writable: block is readable and writable");
        }
        assert!(unsafe { (buf.add(off0 - 8) as *const u64).read_unaligned() } == tag,
            "disjoint: earlier block untouched by the allocation");
        kani::cover!(zeroed && bytes == 64, "zeroed 64-byte block");
        kani::cover!(!zeroed && beg > off0, "alignment padding skipped");
        std::mem::forget(a);
    }
}

// ---- 11.b grow ------------------------------------------------------------------
fn grow_step(old: usize, zeroed: bool) {
    let buf = model_buf(512);
    let a = any_arena(buf);
    let (off0, com0) = (a.offset.get(), a.commit.get());
    kani::assume(off0 <= 192);
    // an existing block [q, q+old) handed out earlier: the tail or strictly inside
    let q: usize = kani::any();
    kani::assume(q % 8 == 0 && q <= off0 && old <= off0 - q);
    let tag: u64 = kani::any();
    if old >= 8 {
        unsafe { (buf.add(q) as *mut u64).write(tag) };
    } else if old == 1 {
        unsafe { *buf.add(q) = tag as u8 };
    }
    // a neighbour above a non-tail block
    let ntag: u8 = kani::any();
    let has_neighbour = q + old < off0;
    if has_neighbour {
        unsafe { *buf.add(q + old) = ntag };
    }
    let new: usize = kani::any();
    kani::assume(new >= old && new <= 64);
    let old_l = Layout::from_size_align(old, 8).unwrap();
    let new_l = Layout::from_size_align(new, 8).unwrap();
    let ptr = unsafe { NonNull::new_unchecked(buf.add(q)) };
    let r = unsafe { if zeroed { a.grow_zeroed(ptr, old_l, new_l) } else { a.grow(ptr, old_l, new_l) } };
    match r {
        Ok(p) => {
            let beg = off_of(buf, p);
            assert!(p.len() == new, "size: grown block has the new length");
            assert!(beg % 8 == 0, "aligned: grown block keeps the alignment");
            assert!(beg <= a.commit.get() && new <= a.commit.get() - beg && a.commit.get() <= CAP,
                "in-bounds: grown block inside committed memory");
            if q + old == off0 && old > 0 {
                assert!(beg == q, "tail: the most recent block grows in place");
                assert!(a.offset.get() == q + new, "tail: offset is the new end");
            } else if q + old != off0 {
                assert!(beg >= off0, "non-tail: fresh block disjoint from everything handed out");
                assert!(a.offset.get() == beg + new, "non-tail: offset is the end of the fresh block");
            } else {
                // old == 0 at the tail: in place or fresh are both correct
                assert!(beg >= q && a.offset.get() == beg + new, "zero-size tail block");
            }
            if old >= 8 {
                assert!(unsafe { (buf.add(beg) as *const u64).read() } == tag, "contents: first old bytes preserved");
            } else if old == 1 {
                assert!(unsafe { *buf.add(beg) } == tag as u8, "contents: first old bytes preserved");
            }
            if has_neighbour {
                assert!(unsafe { *buf.add(q + old) } == ntag, "disjoint: neighbour above a non-tail block untouched");
            }
            if zeroed && new > old {
                let i: usize = kani::any();
                kani::assume(i >= old && i < new);
                assert!(unsafe { *buf.add(beg + i) } == 0, "zeroed: grow_zeroed zeroes the delta");
            }
            assert!(inv(&a), "invariant: I11 after grow");
        }
        Err(_) => {
            check_alloc_err(&a, off0, com0);
        }
    }
    kani::cover!(r.is_ok() && q + old == off0 && new > old, "tail grow");
    kani::cover!(r.is_ok() && q + old < off0 && new > old, "non-tail grow");
    kani::cover!(old != 0 || r.is_err(), "grow fails (commit refused) [old == 0 instances]");
    std::mem::forget(a);
}

macro_rules! grow_step {
    ($name:ident, $old:literal, $zeroed:literal) => {
        bump_proof! { fn $name() { grow_step($old, $zeroed) } }
    };
}

// ---- 11.c shrink ------------------------------------------------------------------
fn shrink_step(tail: bool) {
    let buf = model_buf(512);
    let a = any_arena(buf);
    let (off0, com0) = (a.offset.get(), a.commit.get());
    kani::assume(off0 <= 192);
    let q: usize = kani::any();
    let old: usize = kani::any();
    kani::assume(q % 8 == 0 && q <= off0 && old >= 8 && old <= 64 && old <= off0 - q);
    kani::assume((q + old == off0) == tail);
    let tag: u64 = kani::any();
    unsafe { (buf.add(q) as *mut u64).write(tag) };
    let new: usize = kani::any();
    kani::assume(new <= old);
    let old_l = Layout::from_size_align(old, 8).unwrap();
    let new_l = Layout::from_size_align(new, 8).unwrap();
    let r = unsafe { a.shrink(NonNull::new_unchecked(buf.add(q)), old_l, new_l) };
    let p = r.unwrap();
    assert!(off_of(buf, p) == q, "shrink: block does not move");
    if tail {
        assert!(p.len() == new && a.offset.get() == q + new, "tail: offset moves down to the new end");
    } else {
        assert!(p.len() == old && a.offset.get() == off0, "non-tail: state unchanged, old length returned");
    }
    assert!(a.commit.get() == com0 && inv(&a), "invariant: I11 after shrink");
    if new >= 8 || !tail {
        assert!(unsafe { (buf.add(q) as *const u64).read() } == tag, "contents: kept bytes preserved");
    }
    kani::cover!(new < old, "real shrink request");
    std::mem::forget(a);
}
macro_rules! shrink_step {
    ($name:ident, $tail:literal) => {
        bump_proof! { fn $name() { shrink_step($tail) } }
    };
}

// ---- 11.d reset then allocate ------------------------------------------------------
bump_proof! {
    fn reset_arith_step() {
        let buf = model_buf(CAP);
        let a = any_arena(buf);
        let (off0, com0) = (a.offset.get(), a.commit.get());
        let to: usize = kani::any();
        kani::assume(to <= off0);
        // R-profile: no fill; arithmetic over the full range
        unsafe { a.reset(to) };
        assert!(a.offset.get() == to && a.commit.get() == com0, "reset: offset is the mark, commit unchanged");
        assert!(inv(&a), "invariant: I11 after reset");
        let bytes: usize = kani::any();
        let shift: u8 = kani::any();
        kani::assume(shift <= 12);
        let align = 1usize << shift;
        unsafe { COMMIT_FAILS = false; }
        if let Ok(p) = a.alloc_raw(bytes, align) {
            let beg = off_of(buf, p);
            assert!(beg == (to + align - 1) & !(align - 1), "reuse: next block starts exactly at the aligned mark");
            assert!(beg >= to, "reuse: nothing below the mark is handed out again");
        }
        kani::cover!(to < off0, "real reset");
        std::mem::forget(a);
    }
}

bump_proof! {
    fn reset_window_step() {
        // A-profile: the 0xDD fill must stay inside [to, commit) and must not touch anything below `to`
        let buf = model_buf(512);
        let a = any_arena(buf);
        let (off0, com0) = (a.offset.get(), a.commit.get());
        kani::assume(off0 <= 256);
        let to: usize = kani::any();
        kani::assume(to <= off0);
        let below: usize = kani::any();
        kani::assume(below < to);
        let tag: u8 = kani::any();
        unsafe { *buf.add(below) = tag };
        unsafe { a.reset(to) };
        assert!(a.offset.get() == to && a.commit.get() == com0, "reset: offset is the mark, commit unchanged");
        assert!(unsafe { *buf.add(below) } == tag, "below-mark: bytes below the mark untouched by reset");
        let bytes: usize = kani::any();
        kani::assume(bytes <= 32);
        unsafe { COMMIT_FAILS = false; }
        let p = a.alloc_raw(bytes, 1).unwrap();
        assert!(off_of(buf, p) == to, "reuse: next block starts exactly at the mark");
        assert!(unsafe { *buf.add(below) } == tag, "below-mark: bytes below the mark untouched by the next allocation");
        kani::cover!(to < off0, "real reset (poisoning in the debug profile)");
        kani::cover!(to == off0, "no-op reset");
        std::mem::forget(a);
    }
}

// ---- 11.e decommit -----------------------------------------------------------------
bump_proof! {
    fn decommit_step() {
        let buf = model_buf(CAP);
        let a = any_arena(buf);
        let (off0, com0) = (a.offset.get(), a.commit.get());
        a.decommit();
        let keep = (off0 + CHUNK - 1) / CHUNK * CHUNK;
        let expect = if keep < com0 { keep } else { com0 };
        assert!(a.commit.get() == expect, "decommit: commit' == min(commit, chunk_up(offset))");
        assert!(a.offset.get() == off0, "decommit: offset unchanged");
        assert!(inv(&a), "invariant: I11 after decommit");
        unsafe {
            if expect < com0 {
                assert!(DECOMMIT_CALLS == 1 && DECOMMIT_OFF == expect && DECOMMIT_LEN == com0 - expect,
                    "decommit: exactly [commit', commit0) is released");
            } else {
                assert!(DECOMMIT_CALLS == 0, "decommit: nothing released when no full chunk is free");
            }
            // a following allocation re-commits starting at commit'
            COMMIT_FAILS = false;
        }
        let bytes: usize = kani::any();
        kani::assume(bytes <= CAP);
        let r = a.alloc_raw(bytes, 1);
        if let Ok(p) = r {
            check_alloc_ok(&a, buf, p, bytes, 1, off0, expect);
        }
        kani::cover!(expect < com0, "chunks released");
        kani::cover!(expect < com0 && r.is_ok() && a.commit.get() > expect, "re-commit after decommit");
        std::mem::forget(a);
    }
}

// ---- 11.g from the initial state -----------------------------------------------------
bump_proof! {
    fn new_two_allocs_smoke() {
        unsafe { COMMIT_FAILS = false; }
        let cap: usize = kani::any();
        kani::assume(cap <= 3 * CHUNK);
        let a = Arena::new(cap).unwrap();
        assert!(a.capacity >= cap.max(1) && a.capacity % CHUNK == 0 && a.capacity < cap.max(1) + CHUNK,
            "new: capacity rounded up to the chunk size");
        assert!(a.commit.get() == 0 && a.offset.get() == 0, "new: nothing committed or allocated");
        let n1: usize = kani::any();
        let n2: usize = kani::any();
        kani::assume(n1 <= 16 && n2 <= 16);
        let p1 = a.alloc_raw(n1, 8).unwrap();
        let p2 = a.alloc_raw(n2, 8).unwrap();
        let (b1, b2) = (p1.cast::<u8>().as_ptr() as usize, p2.cast::<u8>().as_ptr() as usize);
        assert!(b1 + n1 <= b2, "disjoint: two successive blocks do not overlap");
        let mark = a.offset();
        let p3 = a.alloc_raw(8, 8).unwrap();
        unsafe { a.reset(mark) };
        let p4 = a.alloc_raw(8, 8).unwrap();
        assert!(p3.cast::<u8>() == p4.cast::<u8>(), "reuse: space above the mark is reused after reset");
        assert!(a.contains_ptr(p4.cast::<u8>().as_ptr()), "contains: block inside the reservation");
        kani::cover!(n1 > 0 && n2 > 0, "two non-empty blocks");
        std::mem::forget(a);
    }
}

// contains_ptr for any address relative to the reservation
bump_proof! {
    fn contains_ptr_any() {
        let buf = model_buf(CAP);
        let a = any_arena(buf);
        let delta: usize = kani::any();
        let p = (buf as usize).wrapping_add(delta) as *const u8;
        assert!(a.contains_ptr(p) == (delta < CAP), "contains: true exactly inside the reservation");
        kani::cover!(delta == CAP, "one past the end");
        kani::cover!(delta == usize::MAX, "one before the base");
    }
}

// ---- 11.a' alignment of the *address* for alignments above the page size ---------------
// mmap guarantees a page-aligned base only.  The base is modelled as a page-aligned
// address inside a larger object: base = obj + delta, delta a multiple of 4096.
bump_proof! {
    fn alloc_align_above_page() {
        let obj = model_buf(CAP + 65536);
        let delta: usize = kani::any();
        kani::assume(delta % 4096 == 0 && delta < 65536);
        let buf = obj.wrapping_add(delta);
        let a = any_arena(buf);
        let (off0, com0) = (a.offset.get(), a.commit.get());
        let shift: u8 = kani::any();
        kani::assume(shift > 12 && shift <= 16);
        let align = 1usize << shift;
        let bytes: usize = kani::any();
        kani::assume(bytes <= 64);
        unsafe { COMMIT_FAILS = false; }
        if let Ok(p) = a.alloc_raw(bytes, align) {
            let addr = delta + off_of(buf, p); // address modulo the 64 KiB-aligned object base
            assert!(addr % align == 0, "aligned-address: block address is a multiple of the alignment");
        }
        kani::cover!(delta == 4096, "base that is only page-aligned");
        std::mem::forget(a);
    }
}
