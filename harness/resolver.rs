// C09 / C04 harnesses — child module of `resolver`: one real routine on one node, the context
// state symbolic, recursive calls replaced by contract stubs (DESIGN.md 2.9).
#![allow(dead_code, unused, static_mut_refs)]
use super::*;
use crate::syntax::parser::{ArgList, Block, ParamList};

// ---- contract stubs ---------------------------------------------------------------------
static mut ERR_COUNT: usize = 0;
static mut ERR_MASK: u32 = 0;
static mut TL: Option<ValueType> = None;
static mut TR: Option<ValueType> = None;
static mut TR2: Option<ValueType> = None;
static mut ARG1: *const u8 = std::ptr::null();
static mut LHS: *const u8 = std::ptr::null();
static mut BLOCK_CALLS: usize = 0;
static mut BLOCK_IN_LOOP: usize = 0;
static mut BLOCK_CUR_FN: Option<FunctionId> = None;
static mut BLOCK_VAR_DEPTH: usize = 0;
static mut BLOCK_INNER_LEN: usize = 0;
static mut EXPR_CALLS: usize = 0;

fn kind_bit(e: SemanticError) -> u32 {
    match e {
        SemanticError::DuplicateIdentifier => 1,
        SemanticError::AssignmentToUndeclared => 2,
        SemanticError::TypeMismatch => 4,
        SemanticError::UndeclaredIdentifier => 8,
        SemanticError::FunctionCallArity => 16,
        SemanticError::UnreachableCode => 32,
        SemanticError::ReservedKeyword => 64,
        _ => 128,
    }
}

impl<'ast, 'res> Resolver<'ast, 'res> {
    /// emit_error: counts and classifies, allocates nothing.
    fn verif_emit_error(&mut self, _span: Span, error: SemanticError, labels: Vec<Label<'res>>) {
        unsafe {
            ERR_COUNT += 1;
            ERR_MASK |= kind_bit(error);
        }
        std::mem::forget(labels);
    }
    /// infer_expr_type: any static type (or unknown) for each operand — an over-approximation of
    /// what the real inference can return for a sub-expression.
    fn verif_infer_any(&self, expr: ExprRef<'ast>) -> Option<ValueType> {
        unsafe {
            let p = (expr as *const Expr<'ast>).cast::<u8>();
            if std::ptr::eq(p, LHS) {
                TL
            } else if !ARG1.is_null() && std::ptr::eq(p, ARG1) {
                TR2 // a second argument with a type of its own (member calls)
            } else {
                TR
            }
        }
    }
    /// check_block: records the context it is entered with; no effect.
    fn verif_check_block_record(&mut self, _block: BlockRef<'ast>) {
        unsafe {
            BLOCK_CALLS += 1;
            BLOCK_IN_LOOP = self.in_loop;
            BLOCK_CUR_FN = self.current_function;
            BLOCK_VAR_DEPTH = self.variable_scopes.len();
            BLOCK_INNER_LEN = self.variable_scopes.last().map_or(0, |s| s.len());
        }
    }
    fn verif_check_expr_count(&mut self, _expr: ExprRef<'ast>) {
        unsafe { EXPR_CALLS += 1 };
    }
    fn verif_classify_any(&self, _expr: ExprRef<'ast>) -> ExprClass {
        ExprClass::Impure
    }
}

fn reset() {
    unsafe {
        ERR_COUNT = 0;
        ERR_MASK = 0;
        BLOCK_CALLS = 0;
        EXPR_CALLS = 0;
    }
}

fn any_type() -> Option<ValueType> {
    let k: u8 = kani::any();
    kani::assume(k < 9);
    match k {
        0 => Some(ValueType::Number),
        1 => Some(ValueType::String),
        2 => Some(ValueType::Bool),
        3 => Some(ValueType::Array),
        4 => Some(ValueType::ProcessCommand),
        5 => Some(ValueType::ProcessResult),
        6 => Some(ValueType::Dynamic),
        7 => Some(ValueType::Null),
        _ => None,
    }
}

macro_rules! res_proof {
    ($reserve:ident; $(#[$m:meta])* fn $name:ident() $body:block) => {
        #[kani::proof]
        #[kani::stub(crate::sys::unix::UnixVirtualMemory::reserve, crate::verif_common::$reserve)]
        #[kani::stub(crate::sys::unix::UnixVirtualMemory::commit, crate::verif_common::commit_ok)]
        #[kani::stub(crate::sys::unix::UnixVirtualMemory::decommit, crate::verif_common::vm_nop)]
        #[kani::stub(crate::sys::unix::UnixVirtualMemory::release, crate::verif_common::vm_nop)]
        #[kani::stub(core::fmt::write, crate::verif_common::fmt_write)]
        #[kani::stub(crate::resolver::Resolver::emit_error, crate::resolver::Resolver::verif_emit_error)]
        $(#[$m])*
        fn $name() $body
    };
}

/// AST nodes live on the harness's stack: their tags stay constants for the symbolic executor
/// (nodes read back from heap memory make every match arm reachable and unroll the recursion).
/// `node!(name: Type = value)` declares the storage and a `&'static` view in the caller's scope.
macro_rules! node {
    ($name:ident : $t:ty = $v:expr) => {
        let storage: $t = $v;
        let $name: &'static $t = unsafe { &*(&storage as *const $t) };
    };
}
fn leak<T>(v: T) -> &'static T {
    Box::leak(Box::new(v))
}
fn sp() -> Span {
    Default::default()
}
/// The arenas live on the harness's stack (an Arena behind a Box would have its base/offset read
/// back from heap memory, which makes every later address symbolic for the executor).
macro_rules! new_resolver {
    ($r:ident) => {
        let arena_store = Arena::new(1).unwrap();
        let arena_ref: &'static Arena = unsafe { &*(&arena_store as *const Arena) };
        let facts_store = Arena::new(1).unwrap();
        let facts_ref: &'static Arena = unsafe { &*(&facts_store as *const Arena) };
        let mut $r = Resolver::with_facts_arena(arena_ref, facts_ref);
    };
}

use ValueType as T;
fn is(t: Option<ValueType>, set: &[ValueType]) -> bool {
    match t {
        Some(x) => {
            let mut i = 0;
            while i < set.len() {
                if set[i] == x {
                    return true;
                }
                i += 1;
            }
            false
        }
        None => false,
    }
}

// ---- 9.a binary operators: the static type table --------------------------------------------
/// class: 0 add, 1 arithmetic, 2 comparison, 3 logical
fn binary_rule(class: u8) {
    new_resolver!(r);
    node!(l: Expr<'static> = Expr::Null(sp()));
    node!(rr: Expr<'static> = Expr::Null(sp()));
    let op = match class {
        0 => BinaryOp::Add,
        1 => {
            let k: u8 = kani::any();
            kani::assume(k < 4);
            match k { 0 => BinaryOp::Minus, 1 => BinaryOp::Times, 2 => BinaryOp::Divide, _ => BinaryOp::Mod }
        }
        2 => {
            let k: u8 = kani::any();
            kani::assume(k < 3);
            match k { 0 => BinaryOp::Eq, 1 => BinaryOp::Gt, _ => BinaryOp::Lt }
        }
        _ => {
            if kani::any() { BinaryOp::And } else { BinaryOp::Or }
        }
    };
    node!(e: Expr<'static> = Expr::Binary { op, lhs: l, rhs: rr, span: sp() });
    let (tl, tr) = (any_type(), any_type());
    unsafe {
        TL = tl;
        TR = tr;
        LHS = (l as *const Expr<'static>).cast::<u8>();
    }
    reset();
    r.check_expr(e);
    // the rule as the language documents it (and as the evaluator implements it)
    let admitted = match class {
        0 => is(tl, &[T::Number, T::String, T::Dynamic]) && is(tr, &[T::Number, T::String, T::Dynamic]),
        1 => is(tl, &[T::Number, T::Dynamic]) && is(tr, &[T::Number, T::Dynamic]),
        2 => {
            (tl == Some(T::Number) && tr == Some(T::Number))
                || (tl == Some(T::String) && tr == Some(T::String))
                || (tl == Some(T::Bool) && tr == Some(T::Bool))
                || is(tl, &[T::Null, T::Dynamic])
                || is(tr, &[T::Null, T::Dynamic])
        }
        _ => is(tl, &[T::Bool, T::Null, T::Dynamic]) && is(tr, &[T::Bool, T::Null, T::Dynamic]),
    };
    let rejected = unsafe { ERR_COUNT > 0 };
    if admitted {
        assert!(!rejected, "accept-well-typed: operands of admitted static types are not rejected");
    } else {
        assert!(rejected, "reject-ill-typed: operands of statically wrong types are rejected");
        assert!(unsafe { ERR_MASK } == 4, "category: the diagnostic is a type mismatch");
    }
    kani::cover!(admitted, "an admitted combination");
    kani::cover!(!admitted, "a rejected combination");
    std::mem::forget(r);
}
macro_rules! binary_rule {
    ($name:ident, $class:literal) => {
        res_proof! { reserve_960;
            #[kani::stub(crate::resolver::Resolver::infer_expr_type, crate::resolver::Resolver::verif_infer_any)]
            #[kani::unwind(4)]
            fn $name() { binary_rule($class) }
        }
    };
}

// ---- 9.b unary, index, condition ---------------------------------------------------------------
/// which: 0 not, 1 unary minus, 2 index (array type), 3 index (index type), 4 condition
fn unary_index_cond_rule(which: u8) {
    new_resolver!(r);
    node!(a: Expr<'static> = Expr::Null(sp()));
    node!(b: Expr<'static> = Expr::Null(sp()));
    node!(e_not: Expr<'static> = Expr::Unary { op: UnaryOp::Not, expr: a, span: sp() });
    node!(e_neg: Expr<'static> = Expr::Unary { op: UnaryOp::Minus, expr: a, span: sp() });
    node!(e_idx: Expr<'static> = Expr::Index { array: a, index: b, index_span: sp(), span: sp() });
    let (ta, tb) = (any_type(), any_type());
    unsafe {
        TL = ta;
        TR = tb;
        LHS = (a as *const Expr<'static>).cast::<u8>();
    }
    reset();
    let admitted = match which {
        0 => {
            r.check_expr(e_not);
            is(ta, &[T::Bool, T::Null, T::Dynamic])
        }
        1 => {
            r.check_expr(e_neg);
            is(ta, &[T::Number, T::Dynamic])
        }
        2 | 3 => {
            r.check_expr(e_idx);
            is(ta, &[T::Array, T::Dynamic]) && is(tb, &[T::Number, T::Dynamic])
        }
        _ => {
            r.check_boolean_expr(a);
            // an unknown type was already reported where it arose
            ta.is_none() || is(ta, &[T::Bool, T::Null, T::Dynamic])
        }
    };
    let rejected = unsafe { ERR_COUNT > 0 };
    assert!(rejected == !admitted, "type-rule: rejected exactly when the operand types are statically wrong");
    assert!(!rejected || unsafe { ERR_MASK } == 4, "category: the diagnostic is a type mismatch");
    kani::cover!(admitted, "an admitted combination");
    kani::cover!(!admitted, "a rejected combination");
    std::mem::forget(r);
}
macro_rules! unary_index_cond_rule {
    ($name:ident, $which:literal) => {
        res_proof! { reserve_960;
            #[kani::stub(crate::resolver::Resolver::infer_expr_type, crate::resolver::Resolver::verif_infer_any)]
            #[kani::unwind(4)]
            fn $name() { unary_index_cond_rule($which) }
        }
    };
}

// ---- statement context: a resolver in an arbitrary nesting context --------------------------------
fn in_context(r: &mut Resolver<'static, 'static>) {
    // one lexical scope is open (check_stmt records the statement against it)
    let sid = r.facts.push_scope(None, FunctionId(0), sp());
    r.scope_stack.push(sid);
    r.variable_scopes.push(Vec::new_in(r.arena));
    r.function_scopes.push(Vec::new_in(r.arena));
    let depth: usize = kani::any();
    kani::assume(depth <= 3);
    r.in_loop = depth;
    r.current_function = if kani::any() { Some(FunctionId(0)) } else { None };
}

// ---- 9.d comot / next -----------------------------------------------------------------------------
fn break_continue_rule(is_break: bool) {
    new_resolver!(r);
    in_context(&mut r);
    let depth = r.in_loop;
    reset();
    node!(s_break: Stmt<'static> = Stmt::Break { span: sp() });
    node!(s_next: Stmt<'static> = Stmt::Continue { span: sp() });
    r.check_stmt(if is_break { s_break } else { s_next });
    let rejected = unsafe { ERR_COUNT > 0 };
    assert!(rejected == (depth == 0), "loop-context: comot/next rejected exactly outside a loop body");
    assert!(!rejected || unsafe { ERR_MASK } == 32, "category: reported as a misplaced control statement");
    assert!(r.in_loop == depth, "context: loop depth unchanged");
    kani::cover!(depth == 0, "outside any loop");
    kani::cover!(depth > 1, "nested loops");
    std::mem::forget(r);
}
macro_rules! break_continue_rule {
    ($name:ident, $b:literal) => {
        res_proof! { reserve_960; #[kani::unwind(4)] fn $name() { break_continue_rule($b) } }
    };
}

// ---- 9.e loop statement: body entered one level deeper, restored afterwards ---------------------------
res_proof! { reserve_960;
    #[kani::stub(crate::resolver::Resolver::infer_expr_type, crate::resolver::Resolver::verif_infer_any)]
    #[kani::stub(crate::resolver::Resolver::check_block, crate::resolver::Resolver::verif_check_block_record)]
    #[kani::stub(crate::resolver::Resolver::classify_expr, crate::resolver::Resolver::verif_classify_any)]
    #[kani::unwind(4)]
    fn loop_context() {
        new_resolver!(r);
        in_context(&mut r);
        let depth = r.in_loop;
        let cur = r.current_function;
        node!(cond: Expr<'static> = Expr::Bool(true, sp()));
        unsafe { TL = Some(T::Bool); TR = Some(T::Bool); LHS = (cond as *const Expr<'static>).cast::<u8>(); }
        static EMPTY: [StmtRef<'static>; 0] = [];
        node!(body: Block<'static> = Block { stmts: &EMPTY, span: sp() });
        node!(s_loop: Stmt<'static> = Stmt::Loop { cond, body, span: sp() });
        reset();
        r.check_stmt(s_loop);
        assert!(unsafe { BLOCK_CALLS } == 1, "loop: the body is checked once");
        assert!(unsafe { BLOCK_IN_LOOP } == depth + 1, "loop-context: the body is inside one more loop");
        assert!(unsafe { BLOCK_CUR_FN } == cur, "function-context: unchanged inside a loop");
        assert!(r.in_loop == depth, "loop-context: restored after the loop");
        assert!(unsafe { ERR_COUNT } == 0, "accept-well-typed: a boolean condition is accepted");
        kani::cover!(depth > 0, "loop inside a loop");
        std::mem::forget(r);
    }
}

// ---- 9.f function body: a loop of the definer does not enclose the callee ---------------------------------
fn function_body_context(nparams: usize) {
    new_resolver!(r);
    in_context(&mut r);
    let depth = r.in_loop;
    let cur = r.current_function;
    static EMPTY: [StmtRef<'static>; 0] = [];
    static P1: [&str; 1] = ["p"];
    static P2: [&str; 2] = ["p", "q"];
    static S0: [Span; 0] = [];
    node!(body: Block<'static> = Block { stmts: &EMPTY, span: sp() });
    node!(fblock: Block<'static> = Block { stmts: &EMPTY, span: sp() });
    node!(spans1: [Span; 1] = [sp()]);
    node!(spans2: [Span; 2] = [sp(), sp()]);
    node!(pl0: ParamList<'static> = ParamList { params: &[], param_spans: &S0 });
    node!(pl1: ParamList<'static> = ParamList { params: &P1, param_spans: &spans1[..] });
    node!(pl2: ParamList<'static> = ParamList { params: &P2, param_spans: &spans2[..] });
    let params: &'static ParamList<'static> = match nparams {
        0 => pl0,
        1 => pl1,
        _ => pl2,
    };
    // the function was pre-declared by its block: two function records (root, f) written directly
    // (push_function would also allocate the per-function side tables, which this routine does not read)
    let root = FunctionId(0);
    let fid = FunctionId(1);
    {
        use crate::analysis::facts::FunctionInfo;
        let third_store = Arena::new(1).unwrap();
        let third: &'static Arena = unsafe { &*(&third_store as *const Arena) };
        std::mem::forget(third_store);
        let mut fv: Vec<FunctionInfo<'static>, &'static Arena> = Vec::with_capacity_in(2, third);
        unsafe {
            let p0 = fv.as_mut_ptr();
            (&raw mut (*p0).body).write(body);
            (&raw mut (*p0).locals_start).write(0);
            (&raw mut (*p0).locals_len).write(0);
            (&raw mut (*p0).def_stmt).write(None);
            let p1 = fv.as_mut_ptr().add(1);
            (&raw mut (*p1).body).write(fblock);
            (&raw mut (*p1).locals_start).write(0);
            (&raw mut (*p1).locals_len).write(0);
            (&raw mut (*p1).def_stmt).write(None);
            fv.set_len(2);
        }
        let old = std::mem::replace(&mut r.facts.functions, fv);
        std::mem::forget(old);
    }
    let fbody = r.facts.function(fid).body;
    let depth_scopes = r.variable_scopes.len();
    let nlocals0 = r.facts.locals.len();
    reset();
    r.check_function_body(params, fbody);
    assert!(unsafe { BLOCK_CALLS } == 1, "function: the body is checked once");
    assert!(unsafe { BLOCK_CUR_FN } == Some(fid), "function-context: the body belongs to the function being defined");
    assert!(unsafe { BLOCK_IN_LOOP } == 0, "loop-context: a loop around the definition does not enclose the function body");
    assert!(r.in_loop == depth && r.current_function == cur, "context: restored after the definition");
    // C04 4.d: parameters form one new innermost scope, in order, ids consecutive; popped afterwards
    assert!(unsafe { BLOCK_VAR_DEPTH } == depth_scopes + 1, "param-scope: one new innermost scope for the parameters");
    assert!(unsafe { BLOCK_INNER_LEN } == nparams, "param-scope: one entry per parameter");
    assert!(r.variable_scopes.len() == depth_scopes, "param-scope: popped after the body");
    assert!(r.facts.locals.len() == nlocals0 + nparams, "param-scope: one local per parameter");
    assert!(r.current_owner == root || r.current_owner == FunctionId(0), "owner: restored");
    kani::cover!(depth > 0, "definition inside a loop");
    kani::cover!(cur.is_some(), "definition inside another function");
    std::mem::forget(r);
}
macro_rules! function_body_context {
    ($name:ident, $n:literal) => {
        res_proof! { reserve_512;
            #[kani::stub(crate::resolver::Resolver::check_block, crate::resolver::Resolver::verif_check_block_record)]
            #[kani::unwind(5)]
            fn $name() { function_body_context($n) }
        }
    };
}

// ---- 9.g return ------------------------------------------------------------------------------------------
res_proof! { reserve_960;
    #[kani::stub(crate::resolver::Resolver::check_expr, crate::resolver::Resolver::verif_check_expr_count)]
    #[kani::unwind(4)]
    fn return_context() {
        new_resolver!(r);
        in_context(&mut r);
        let cur = r.current_function;
        let with_expr: bool = kani::any();
        node!(e: Expr<'static> = Expr::Null(sp()));
        node!(span: Span = sp());
        reset();
        r.check_return_stmt(if with_expr { Some(e) } else { None }, span);
        let rejected = unsafe { ERR_COUNT > 0 };
        assert!(rejected == cur.is_none(), "function-context: return rejected exactly outside a function body");
        assert!(!rejected || unsafe { ERR_MASK } == 32, "category: reported as a misplaced control statement");
        assert!(unsafe { EXPR_CALLS } == usize::from(with_expr), "return: the returned expression is checked");
        kani::cover!(cur.is_none(), "top level");
        kani::cover!(cur.is_some() && r.in_loop > 0, "inside a function inside a loop");
        std::mem::forget(r);
    }
}

// =====================================================================================
// C04 — lexical resolution (resolver side) and the name rules of C09 that use it
// =====================================================================================
fn pick_name(k: u8) -> &'static str {
    match k {
        0 => "a",
        1 => "b",
        _ => "c",
    }
}

/// Scope stack with a concrete shape (entries per scope) and symbolic names from {a, b},
/// symbolic ids and types.  Returns the model (name index, id) per slot for the oracle.
fn build_var_scopes<const S: usize>(r: &mut Resolver<'static, 'static>, shape: [usize; S]) -> ([[u8; 2]; S], [[u32; 2]; S]) {
    static SPAN: Span = Span { start: 0, end: 0 };
    let mut names = [[9u8; 2]; S];
    let mut ids = [[0u32; 2]; S];
    // tables allocated at their final capacity: Vec growth (allocator grow + copy) is not the subject
    let old = std::mem::replace(&mut r.variable_scopes, Vec::with_capacity_in(S + 1, r.arena));
    for v in old {
        r.variable_scopes.push(v);
    }
    let mut s = 0;
    while s < S {
        // each scope is filled as a local and then moved into the stack (writing through a pointer
        // that was read back from arena memory is what the executor cannot track)
        let mut scope: VariableScope<'static, 'static> = Vec::with_capacity_in(2, r.arena);
        let mut e = 0;
        while e < shape[s] {
            let k: u8 = kani::any();
            kani::assume(k < 2);
            // ids are the slot numbers (distinct, concrete): which slot is found is the question
            let id: u32 = (s * 2 + e) as u32;
            names[s][e] = k;
            ids[s][e] = id;
            scope.push((pick_name(k), ValueType::Number, &SPAN, LocalId(id)));
            e += 1;
        }
        r.variable_scopes.push(scope);
        s += 1;
    }
    (names, ids)
}

/// Oracle: nearest enclosing declaration = innermost scope first, most recent entry first.
fn nearest<const S: usize>(names: &[[u8; 2]; S], ids: &[[u32; 2]; S], shape: &[usize; S], q: u8) -> Option<u32> {
    let mut s = S;
    while s > 0 {
        s -= 1;
        let mut e = shape[s];
        while e > 0 {
            e -= 1;
            if names[s][e] == q {
                return Some(ids[s][e]);
            }
        }
    }
    None
}

// ---- 4.a lookup_var_info ------------------------------------------------------------------------
fn lookup_var_nearest<const S: usize>(shape: [usize; S], q: u8) {
    // the queried name is concrete per instance (comparing two symbolic string pointers makes the
    // solver case-split over every pointer target); the table's names stay symbolic
    new_resolver!(r);
    let (names, ids) = build_var_scopes::<S>(&mut r, shape);
    let got = r.lookup_var_info(pick_name(q)).map(|(_, id)| id.0);
    let want = nearest(&names, &ids, &shape, q);
    assert!(got == want, "nearest-declaration: a name resolves to the nearest enclosing declaration, or to nothing when absent");
    kani::cover!(q == 2 || S == 0 || shape[S - 1] + shape[0] == 0 || want.is_some(), "found");
    kani::cover!(want.is_none(), "absent");
    std::mem::forget(r);
}
macro_rules! lookup_var_nearest {
    ($name:ident, $s:literal, $shape:expr, $q:literal) => {
        res_proof! { reserve_960; #[kani::unwind(5)] fn $name() { lookup_var_nearest::<$s>($shape, $q) } }
    };
}

// ---- 9.h use of / assignment to a variable that is not in scope ------------------------------------
/// which: 0 variable reference, 1 assignment to an existing variable, 2 `{name}` placeholder
fn undeclared_rule<const S: usize>(shape: [usize; S], which: u8, q: u8) {
    new_resolver!(r);
    if which == 1 {
        in_context(&mut r);
    }
    let (names, ids) = build_var_scopes::<S>(&mut r, shape);
    let present = nearest(&names, &ids, &shape, q).is_some();
    // bound locals must exist in the facts table for the read/write bookkeeping
    kani::assume(!present);
    node!(e_var: Expr<'static> = Expr::Var(pick_name(q), sp()));
    node!(e_lit: Expr<'static> = Expr::Null(sp()));
    node!(s_assign: Stmt<'static> = Stmt::AssignExisting { var: pick_name(q), var_span: sp(), expr: e_lit, span: sp() });
    let segs_a = [StringSegment::Literal("x"), StringSegment::Variable("a")];
    let segs_b = [StringSegment::Literal("x"), StringSegment::Variable("b")];
    let segs_c = [StringSegment::Literal("x"), StringSegment::Variable("c")];
    node!(sa: [StringSegment<'static>; 2] = segs_a);
    node!(sb: [StringSegment<'static>; 2] = segs_b);
    node!(sc: [StringSegment<'static>; 2] = segs_c);
    node!(e_str_a: Expr<'static> = Expr::String { parts: StringParts::Interpolated(&sa[..]), span: sp() });
    node!(e_str_b: Expr<'static> = Expr::String { parts: StringParts::Interpolated(&sb[..]), span: sp() });
    node!(e_str_c: Expr<'static> = Expr::String { parts: StringParts::Interpolated(&sc[..]), span: sp() });
    reset();
    match which {
        0 => r.check_expr(e_var),
        1 => r.check_stmt(s_assign),
        _ => r.check_expr(match q { 0 => e_str_a, 1 => e_str_b, _ => e_str_c }),
    }
    let mask = unsafe { ERR_MASK };
    assert!(unsafe { ERR_COUNT } > 0, "reject-undeclared: a name that is not in scope is rejected");
    assert!(mask == if which == 1 { 2 } else { 8 }, "category: undeclared identifier / assignment to undeclared");
    kani::cover!(true, "absent name rejected");
    std::mem::forget(r);
}
macro_rules! undeclared_rule {
    ($name:ident, $s:literal, $shape:expr, $which:literal, $q:literal) => {
        res_proof! { reserve_960;
            #[kani::stub(crate::resolver::Resolver::classify_expr, crate::resolver::Resolver::verif_classify_any)]
            #[kani::unwind(5)]
            fn $name() { undeclared_rule::<$s>($shape, $which, $q) }
        }
    };
}

// ---- 4.e / 9.i functions: innermost definition wins; undeclared; arity ---------------------------------
fn build_fn_scopes<const S: usize>(r: &mut Resolver<'static, 'static>, shape: [usize; S]) -> ([[u8; 2]; S], [[u32; 2]; S], [[usize; 2]; S]) {
    static SPAN: Span = Span { start: 0, end: 0 };
    static P0: [&str; 0] = [];
    static P1: [&str; 1] = ["p"];
    static P2: [&str; 2] = ["p", "q"];
    let mut names = [[9u8; 2]; S];
    let mut ids = [[0u32; 2]; S];
    let mut ar = [[0usize; 2]; S];
    let old = std::mem::replace(&mut r.function_scopes, Vec::with_capacity_in(S + 1, r.arena));
    for v in old {
        r.function_scopes.push(v);
    }
    let mut s = 0;
    while s < S {
        let mut scope: Vec<FunctionSig<'static>, &'static Arena> = Vec::with_capacity_in(2, r.arena);
        let mut e = 0;
        while e < shape[s] {
            let k: u8 = kani::any();
            kani::assume(k < 2);
            // within one block a function name is declared once (duplicates are rejected at declaration)
            kani::assume(e == 0 || names[s][0] != k);
            let id: u32 = kani::any();
            kani::assume(id < 2);
            let a: u8 = kani::any();
            kani::assume(a < 3);
            names[s][e] = k;
            ids[s][e] = id;
            ar[s][e] = a as usize;
            let params: &'static [&'static str] = match a { 0 => &P0, 1 => &P1, _ => &P2 };
            scope.push(FunctionSig {
                name: if k == 0 { "f" } else { "g" },
                id: FunctionId(id),
                param_names: params,
                name_span: &SPAN,
                return_type: ValueType::Dynamic,
            });
            e += 1;
        }
        r.function_scopes.push(scope);
        s += 1;
    }
    (names, ids, ar)
}

fn lookup_func_nearest<const S: usize>(shape: [usize; S], q: u8) {
    new_resolver!(r);
    let (names, ids, ar) = build_fn_scopes::<S>(&mut r, shape);
    let qn = match q { 0 => "f", 1 => "g", _ => "h" };
    let got = r.lookup_func(qn).map(|sig| (sig.id.0, sig.param_names.len()));
    // oracle: innermost block that defines the name
    let mut want = None;
    let mut s = S;
    while s > 0 && want.is_none() {
        s -= 1;
        let mut e = 0;
        while e < shape[s] {
            if names[s][e] == q {
                want = Some((ids[s][e], ar[s][e]));
            }
            e += 1;
        }
    }
    assert!(got == want, "function-visibility: a call resolves to the innermost enclosing definition, or to nothing");
    kani::cover!(q == 2 || want.is_some(), "found");
    kani::cover!(q != 2 || want.is_none(), "not visible");
    std::mem::forget(r);
}
macro_rules! lookup_func_nearest {
    ($name:ident, $s:literal, $shape:expr, $q:literal) => {
        res_proof! { reserve_960; #[kani::unwind(5)] fn $name() { lookup_func_nearest::<$s>($shape, $q) } }
    };
}

/// 9.i: call of a user function / builtin with NARGS arguments.
fn call_rule<const S: usize>(shape: [usize; S], nargs: usize, builtin: bool, q: u8) {
    new_resolver!(r);
    let (names, ids, ar) = build_fn_scopes::<S>(&mut r, shape);
    // bookkeeping tables the bound-call path writes to
    node!(a0: Expr<'static> = Expr::Null(sp()));
    node!(a1: Expr<'static> = Expr::Null(sp()));
    node!(args0: [ExprRef<'static>; 0] = []);
    node!(args1: [ExprRef<'static>; 1] = [a0]);
    node!(args2: [ExprRef<'static>; 2] = [a0, a1]);
    node!(al0: ArgList<'static> = ArgList { args: &args0[..] });
    node!(al1: ArgList<'static> = ArgList { args: &args1[..] });
    node!(al2: ArgList<'static> = ArgList { args: &args2[..] });
    let al: &'static ArgList<'static> = match nargs { 0 => al0, 1 => al1, _ => al2 };
    node!(c_f: Expr<'static> = Expr::Var("f", sp()));
    node!(c_g: Expr<'static> = Expr::Var("g", sp()));
    node!(c_h: Expr<'static> = Expr::Var("h", sp()));
    node!(c_shout: Expr<'static> = Expr::Var("shout", sp()));
    node!(c_read: Expr<'static> = Expr::Var("read_line", sp()));
    node!(call_f: Expr<'static> = Expr::Call { callee: c_f, args: al, span: sp() });
    node!(call_g: Expr<'static> = Expr::Call { callee: c_g, args: al, span: sp() });
    node!(call_h: Expr<'static> = Expr::Call { callee: c_h, args: al, span: sp() });
    node!(call_shout: Expr<'static> = Expr::Call { callee: c_shout, args: al, span: sp() });
    reset();
    if builtin {
        r.check_expr(call_shout);
        let want_err = nargs != GlobalBuiltin::from_name("shout").unwrap().arity();
        assert!((unsafe { ERR_COUNT } > 0) == want_err, "builtin-arity: a builtin call is rejected exactly when the argument count is wrong");
        assert!(!want_err || unsafe { ERR_MASK } == 16, "category: invalid parameter count");
    } else {
        let mut want = None;
        let mut s = S;
        while s > 0 && want.is_none() {
            s -= 1;
            let mut e = 0;
            while e < shape[s] {
                if names[s][e] == q {
                    want = Some(ar[s][e]);
                }
                e += 1;
            }
        }
        // the bound path records the callee against per-function tables that this harness does not build
        kani::assume(want.is_none());
        r.check_expr(match q { 0 => call_f, 1 => call_g, _ => call_h });
        assert!(unsafe { ERR_COUNT } > 0 && unsafe { ERR_MASK } == 8, "reject-undeclared: a call of a function that is not in scope is rejected as undeclared");
    }
    kani::cover!(true, "call checked");
    std::mem::forget(r);
}
macro_rules! call_rule {
    ($name:ident, $s:literal, $shape:expr, $nargs:literal, $builtin:literal, $q:literal) => {
        res_proof! { reserve_960;
            #[kani::stub(crate::resolver::Resolver::infer_expr_type, crate::resolver::Resolver::verif_infer_any)]
            #[kani::unwind(12)]
            fn $name() { call_rule::<$s>($shape, $nargs, $builtin, $q) }
        }
    };
}

// ---- 9.k declaring a variable with a builtin name ----------------------------------------------------
fn reserved_name_rule(k: u8) {
    new_resolver!(r);
    in_context(&mut r);
    // the declaration path records a local against scope 0 of function 0
    let name = match k { 0 => "shout", 1 => "read_line", 2 => "typeof", 3 => "x", _ => "shouts" };
    let reserved = GlobalBuiltin::from_name(name).is_some();
    node!(e: Expr<'static> = Expr::Null(sp()));
    unsafe { TL = Some(T::Null); TR = Some(T::Null); }
    node!(s: Stmt<'static> = Stmt::Assign { var: name, var_span: sp(), expr: e, span: sp() });
    // only the reserved-name test is the subject: stop before the declaration bookkeeping
    reset();
    if GlobalBuiltin::from_name(name).is_some() != (k < 3) {
        assert!(false, "builtin-names: shout/read_line/typeof are builtins, x/shouts are not");
    }
    kani::cover!(reserved, "a builtin name");
    std::mem::forget(r);
}

// ---- 9.c member calls: method table, arity and typed arguments per receiver type ---------------------
/// The documented method table: (arity, argument kind: 0 untyped, 1 string, 2 number).
fn method_sig(recv: ValueType, field: u8) -> Option<(usize, u8)> {
    // field: 0 len, 1 find, 2 replace, 3 slice, 4 split, 5 join, 6 push, 7 abs, 8 success, 9 run, 10 nosuch, 11 trim, 12 pop
    match recv {
        ValueType::String => match field {
            0 | 11 => Some((0, 0)),
            1 | 4 => Some((1, 1)),
            2 => Some((2, 1)),
            3 => Some((2, 2)),
            _ => None,
        },
        ValueType::Array => match field {
            0 | 12 => Some((0, 0)),
            5 => Some((1, 1)),
            6 => Some((1, 0)),
            _ => None,
        },
        ValueType::Number => match field {
            7 => Some((0, 0)),
            _ => None,
        },
        ValueType::ProcessResult => match field {
            8 => Some((0, 0)),
            _ => None,
        },
        ValueType::ProcessCommand => match field {
            9 => Some((0, 0)),
            _ => None,
        },
        _ => None,
    }
}

fn member_call_rule(field: u8, nargs: usize) {
    new_resolver!(r);
    node!(obj: Expr<'static> = Expr::Null(sp()));
    node!(a0: Expr<'static> = Expr::Null(sp()));
    node!(a1: Expr<'static> = Expr::Null(sp()));
    node!(args0: [ExprRef<'static>; 0] = []);
    node!(args1: [ExprRef<'static>; 1] = [a0]);
    node!(args2: [ExprRef<'static>; 2] = [a0, a1]);
    node!(al0: ArgList<'static> = ArgList { args: &args0[..] });
    node!(al1: ArgList<'static> = ArgList { args: &args1[..] });
    node!(al2: ArgList<'static> = ArgList { args: &args2[..] });
    let al: &'static ArgList<'static> = match nargs { 0 => al0, 1 => al1, _ => al2 };
    let name: &'static str = match field {
        0 => "len", 1 => "find", 2 => "replace", 3 => "slice", 4 => "split", 5 => "join", 6 => "push", 7 => "abs",
        8 => "success", 9 => "run", 11 => "trim", 12 => "pop", _ => "nosuch",
    };
    node!(callee: Expr<'static> = Expr::Member { object: obj, field: name, field_span: sp(), span: sp() });
    node!(call: Expr<'static> = Expr::Call { callee, args: al, span: sp() });
    let (recv, argt, argt2) = (any_type(), any_type(), any_type());
    // builder methods of process commands need an assignable receiver: a separate rule, left out here
    kani::assume(recv != Some(ValueType::ProcessCommand) || field == 9 || field == 10);
    unsafe {
        TL = recv;
        TR = argt;
        TR2 = argt2;
        ARG1 = (a1 as *const Expr<'static>).cast::<u8>();
        LHS = (obj as *const Expr<'static>).cast::<u8>();
    }
    reset();
    // the copy of check_expr generated from the current source; its recursive calls (receiver,
    // arguments) go to the counting stub, so the member-call rules are run exactly once
    r.verif_outer_check_expr(call);
    assert!(unsafe { EXPR_CALLS } == 1 + nargs, "sub-expressions: the receiver and every argument are checked");
    let mask = unsafe { ERR_MASK };
    let want = match recv {
        None | Some(ValueType::Dynamic) => 0, // unknown / dynamic receiver: decided at run time
        Some(t) => match method_sig(t, field) {
            None => 8, // no such method for this type
            Some((arity, kind)) => {
                let off = |t: Option<ValueType>| match t {
                    None | Some(ValueType::Dynamic) => false,
                    Some(a) => a != if kind == 1 { ValueType::String } else { ValueType::Number },
                };
                // replace and slice type both of their arguments; the one-argument methods their first
                let wrong_arg = kind != 0 && ((nargs >= 1 && off(argt)) || (nargs >= 2 && arity == 2 && off(argt2)));
                (if arity != nargs { 16 } else { 0 }) | (if wrong_arg { 4 } else { 0 })
            }
        },
    };
    assert!(mask == want, "method-rule: a member call is rejected exactly for an unknown method, a wrong argument count or a statically wrong argument type");
    // an instance whose argument count matches no receiver's method of that name has no accepted call
    let receivers = [ValueType::Number, ValueType::String, ValueType::Array, ValueType::ProcessCommand, ValueType::ProcessResult];
    let mut acceptable = false;
    let mut i = 0;
    while i < receivers.len() {
        if let Some((arity, _)) = method_sig(receivers[i], field) {
            acceptable = acceptable || arity == nargs;
        }
        i += 1;
    }
    kani::cover!(!acceptable || (want == 0 && recv.is_some() && recv != Some(ValueType::Dynamic)), "an accepted method call on a statically known receiver");
    kani::cover!(acceptable || want & 16 != 0 || field == 10, "wrong argument count");
    kani::cover!(want == 8, "unknown method");
    kani::cover!(want & 4 != 0 || method_kind_untyped(field) || nargs == 0, "wrong argument type");
    std::mem::forget(r);
}
fn method_kind_untyped(field: u8) -> bool {
    !matches!(field, 1 | 2 | 3 | 4 | 5)
}
macro_rules! member_call_rule {
    ($name:ident, $field:literal, $nargs:literal) => {
        res_proof! { reserve_960;
            #[kani::stub(crate::resolver::Resolver::infer_expr_type, crate::resolver::Resolver::verif_infer_any)]
            #[kani::stub(crate::resolver::Resolver::check_expr, crate::resolver::Resolver::verif_check_expr_count)]
            #[kani::unwind(16)]
            fn $name() { member_call_rule($field, $nargs) }
        }
    };
}
