// C07 / 7.g harness — child module of `analysis::facts`: the indexing contract between
// ProgramFacts::local_range and the per-function bit sets of the analyses.
#![allow(dead_code, unused)]
use super::*;
use crate::verif_common::vm_proof;

/// One inductive step of "every local owned by f lies in local_range(f)".
/// Pre-state: two function records with arbitrary ranges inside the locals table (what any
/// history of declarations can have produced), `nl` locals so far.  Step: declare one more
/// local (a parameter or a variable) for either function.  Post: the new local's id lies in
/// its owner's local_range.
fn local_range_step(nl: u32, owner: u32) {
    // three small arenas (model objects below 1000 bytes are flattened by CBMC; one larger
    // object goes through array theory and does not fit)
    let arena = Arena::new(1).unwrap();
    let arena: &'static Arena = unsafe { &*(&arena as *const Arena) };
    let arena_l = Arena::new(1).unwrap();
    let arena_l: &'static Arena = unsafe { &*(&arena_l as *const Arena) };
    let arena_s = Arena::new(1).unwrap();
    let arena_s: &'static Arena = unsafe { &*(&arena_s as *const Arena) };
    let mut facts = ProgramFacts::new(arena);
    let mut fv: Vec<FunctionInfo<'static>, &'static Arena> = Vec::with_capacity_in(2, arena);
    let mut k = 0;
    let mut starts = [0u32; 2];
    let mut lens = [0u32; 2];
    while k < 2 {
        let (s, l): (u32, u32) = (kani::any(), kani::any());
        kani::assume(s <= nl && l <= nl - s);
        unsafe {
            let p = fv.as_mut_ptr().add(k);
            (&raw mut (*p).locals_start).write(s);
            (&raw mut (*p).locals_len).write(l);
        }
        starts[k] = s;
        lens[k] = l;
        k += 1;
    }
    // the two functions own disjoint sets of locals (each local has one owner)
    kani::assume(lens[0] == 0 || lens[1] == 0 || starts[0] + lens[0] <= starts[1] || starts[1] + lens[1] <= starts[0]);
    unsafe { fv.set_len(2) };
    facts.functions = fv;
    let mut lv = Vec::with_capacity_in(nl as usize + 1, arena_l);
    unsafe { lv.set_len(nl as usize) };
    facts.locals = lv;
    let mut sl = Vec::with_capacity_in(1, arena_s);
    sl.push(Vec::with_capacity_in(1, arena_s));
    facts.scope_locals = sl;
    let id = facts.push_param("p", FunctionId(owner), ScopeId(0), Default::default());
    assert!(id.0 == nl, "ids: local ids are dense");
    let r = facts.local_range(FunctionId(owner));
    assert!(r.start <= id.0 && id.0 < r.end, "local-range: a function's local lies inside its local_range");
    kani::cover!(nl == 0 || lens[owner as usize] > 0, "owner already has locals");
    std::mem::forget(facts);
}

macro_rules! local_range_step {
    ($name:ident, $nl:literal, $owner:literal) => {
        vm_proof! { reserve_512, commit_ok;
            #[kani::unwind(4)]
            fn $name() { local_range_step($nl, $owner) }
        }
    };
}
