// C13 harnesses for `builtins::tw` — differential against a naive reference.
#![allow(dead_code, unused)]
use super::*;

/// Reference: first occurrence by definition.
pub(crate) fn naive_find(h: &[u8], n: &[u8]) -> Option<usize> {
    if n.len() > h.len() {
        return None;
    }
    let mut i = 0;
    while i + n.len() <= h.len() {
        let mut ok = true;
        let mut j = 0;
        while j < n.len() {
            if h[i + j] != n[j] {
                ok = false;
                break;
            }
            j += 1;
        }
        if ok {
            return Some(i);
        }
        i += 1;
    }
    None
}

/// Symbolic byte array; `ab` restricts the alphabet to {a, b} (maximises periodicity).
pub(crate) fn any_bytes<const N: usize>(ab: bool) -> [u8; N] {
    let mut out = [0u8; N];
    let mut i = 0;
    while i < N {
        let b: u8 = kani::any();
        if ab {
            kani::assume(b == b'a' || b == b'b');
        }
        out[i] = b;
        i += 1;
    }
    out
}

fn find_diff<const H: usize, const N: usize>(ab: bool) {
    let hb: [u8; H] = any_bytes::<H>(ab);
    let nb: [u8; N] = any_bytes::<N>(ab);
    let hs = unsafe { std::str::from_utf8_unchecked(&hb) };
    let ns = unsafe { std::str::from_utf8_unchecked(&nb) };
    let got = find(hs, ns);
    let want = naive_find(&hb, &nb);
    assert!(got == want, "first-occurrence: find() differs from the definition");
    kani::cover!(!(H > N && N > 0) || (want.is_some() && want.unwrap() > 0), "match at a non-zero position");
    kani::cover!(N == 0 || want.is_none(), "no match");
}

macro_rules! find_diff {
    ($name:ident, $h:literal, $n:literal, $ab:literal, $unw:literal) => {
        #[kani::proof]
        #[kani::stub(memchr_rs::memchr::memchr, crate::verif_common::memchr)]
        #[kani::unwind($unw)]
        fn $name() {
            find_diff::<$h, $n>($ab)
        }
    };
}

// ---- long path, modular ----------------------------------------------------
// (i) the factorisation routines alone: no panic, no out-of-bounds index, crit < n, period >= 1
fn crit_period_contract<const N: usize>(ab: bool) {
    let nb: [u8; N] = any_bytes::<N>(ab);
    let (crit, period) = crit_period(&nb);
    assert!(crit < N, "crit-range: anchor index inside the needle");
    assert!(period >= 1 && period <= N, "period-range: period between 1 and the needle length");
    kani::cover!(crit > 0, "non-trivial critical position");
    kani::cover!(period > 1, "period above one");
}
macro_rules! crit_period_contract {
    ($name:ident, $n:literal, $ab:literal, $unw:literal) => {
        #[kani::proof]
        #[kani::unwind($unw)]
        fn $name() {
            crit_period_contract::<$n>($ab)
        }
    };
}

// (ii) find with crit_period replaced by its contract: any (crit < n, 1 <= period <= n)
fn crit_period_any(x: &[u8]) -> (usize, usize) {
    let c: usize = kani::any();
    let p: usize = kani::any();
    kani::assume(c < x.len() && p >= 1 && p <= x.len());
    (c, p)
}
macro_rules! find_modular {
    ($name:ident, $h:literal, $n:literal, $ab:literal, $unw:literal) => {
        #[kani::proof]
        #[kani::stub(memchr_rs::memchr::memchr, crate::verif_common::memchr)]
        #[kani::stub(crate::builtins::tw::crit_period, crit_period_any)]
        #[kani::unwind($unw)]
        fn $name() {
            find_diff::<$h, $n>($ab)
        }
    };
}

// (ii') the same with a concrete anchor index per instance (cheaper for the solver)
macro_rules! find_modular_crit {
    ($name:ident, $stub:ident, $h:literal, $n:literal, $crit:literal, $unw:literal) => {
        fn $stub(x: &[u8]) -> (usize, usize) {
            let p: usize = kani::any();
            kani::assume(p >= 1 && p <= x.len());
            ($crit, p)
        }
        #[kani::proof]
        #[kani::stub(memchr_rs::memchr::memchr, crate::verif_common::memchr)]
        #[kani::stub(crate::builtins::tw::crit_period, $stub)]
        #[kani::unwind($unw)]
        fn $name() {
            find_diff::<$h, $n>(true)
        }
    };
}
