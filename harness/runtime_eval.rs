// C06 harnesses — child module of `runtime`: one evaluation step of the real evaluator on one node,
// with the values of the sub-expressions symbolic in KIND and content.  The recursive `eval_expr`
// calls are replaced by a stub that hands out prepared values (DESIGN.md A.2, routine duplication):
// the static checker treats parameters, array elements and several built-in results as dynamic, so
// every kind of value can reach every operator at run time.  A step must end with a value or a
// reported runtime error; a panic (`unreachable!`, `assert!`, `expect`) is a violation.
#![allow(dead_code, unused, static_mut_refs)]
use super::*;
use crate::arena::PoolSet;
use crate::syntax::parser::Block;

fn ev_reserve(_size: usize) -> Result<std::ptr::NonNull<u8>, u32> {
    let layout = std::alloc::Layout::from_size_align(256, 4096).unwrap();
    let p = unsafe { std::alloc::alloc(layout) };
    std::ptr::NonNull::new(p).ok_or(12)
}

macro_rules! ev_proof {
    ($(#[$m:meta])* fn $name:ident() $body:block) => {
        #[kani::proof]
        #[kani::stub(crate::sys::unix::UnixVirtualMemory::reserve, ev_reserve)]
        #[kani::stub(crate::sys::unix::UnixVirtualMemory::commit, crate::verif_common::commit_ok)]
        #[kani::stub(crate::sys::unix::UnixVirtualMemory::decommit, crate::verif_common::vm_nop)]
        #[kani::stub(crate::sys::unix::UnixVirtualMemory::release, crate::verif_common::vm_nop)]
        #[kani::stub(crate::arena::pool::PoolSet::new, crate::arena::pool::PoolSet::verif_static)]
        #[kani::stub(crate::arena::pool::PoolSet::contains, crate::arena::pool::PoolSet::verif_contains2)]
        #[kani::stub(core::fmt::write, crate::verif_common::fmt_write)]
        #[kani::stub(crate::arena::string::ArenaString::with_capacity_in, crate::arena::string::ArenaString::verif_with_capacity_in)]
        #[kani::stub(crate::arena::string::ArenaString::push_str, crate::arena::string::ArenaString::verif_push_str)]
        #[kani::stub(crate::runtime::Runtime::eval_expr, crate::runtime::Runtime::verif_eval_prepared)]
        #[kani::stub(crate::runtime::Runtime::check_stack, crate::runtime::Runtime::verif_stack_ok)]
        #[kani::stub(crate::runtime::Runtime::eval_function_call, crate::runtime::Runtime::verif_no_call)]
        $(#[$m])*
        fn $name() $body
    };
}

macro_rules! node {
    ($name:ident : $t:ty = $v:expr) => {
        let storage: $t = $v;
        let $name: &'static $t = unsafe { &*(&storage as *const $t) };
    };
}
fn sp() -> Span {
    Default::default()
}

static mut EV_VALS: [Option<Value<'static>>; 3] = [None, None, None];
static mut EV_NODE0: *const u8 = std::ptr::null();
static mut EV_NODE1: *const u8 = std::ptr::null();
static mut EV_CALLS: usize = 0;
/// true: the n-th call gets the n-th prepared value (a loop condition evaluated once per pass)
static mut EV_BY_CALL: bool = false;
static mut EV_ORDER: [u8; 4] = [9; 4];

impl<'a> Runtime<'a> {
    /// Contract stub for the recursive evaluation of a sub-expression: returns the value prepared for
    /// that node (any kind, any content) and records the order of the calls.
    pub fn verif_eval_prepared(&mut self, expr: ExprRef<'a>) -> Result<Value<'a>, RuntimeError> {
        let p = (expr as *const Expr<'a>).cast::<u8>();
        // node 0 by address; node 1 by address when set (three-operand steps), otherwise "the other one"
        let i = if p == unsafe { EV_NODE0 } {
            0
        } else if unsafe { EV_NODE1 }.is_null() || p == unsafe { EV_NODE1 } {
            1
        } else {
            2
        };
        let n = unsafe { EV_CALLS };
        let i = if unsafe { EV_BY_CALL } { if n < 2 { n } else { 2 } } else { i };
        if n < 4 {
            unsafe { EV_ORDER[n] = i as u8 };
        }
        unsafe { EV_CALLS = n + 1 };
        let v = unsafe { EV_VALS[i].take() };
        match v {
            Some(v) => Ok(unsafe { std::mem::transmute::<Value<'static>, Value<'a>>(v) }),
            None => {
                // a sub-expression is evaluated at most once per step
                assert!(false, "single-evaluation: a sub-expression is evaluated at most once");
                Ok(Value::Null)
            }
        }
    }
    /// Calls are not part of these steps (the node is never a call); cutting the routine keeps process
    /// spawning (threads, `catch_unwind`) out of the compiled harness.
    pub fn verif_no_call(&mut self, _call: ExprRef<'a>) -> Result<Value<'a>, RuntimeError> {
        assert!(false, "cut: no call is evaluated in a step harness");
        Ok(Value::Null)
    }
    /// Process methods are cut from the member-call steps (receivers are never host values there; running a
    /// command spawns threads, which the model checker's front end cannot compile).
    pub fn verif_no_process_call(&mut self, _c: &ProcessCommand<'a>, _b: ProcessCommandBuiltin, _a: &'a ArgList<'a>, _s: Span) -> Result<Value<'a>, RuntimeError> {
        assert!(false, "cut: no process method is evaluated in a step harness");
        Ok(Value::Null)
    }
    /// The builder methods (`arg`, `cwd`, ...) are name-directed: they are reached for ANY receiver that is
    /// called with such a name.  Outside this claim; the cut answers like the real routine does for a
    /// receiver that is not a command.
    pub fn verif_process_builder_cut(&mut self, _r: ExprRef<'a>, _b: ProcessCommandBuiltin, _f: &'a str, _a: &'a ArgList<'a>, span: Span) -> Result<Value<'a>, RuntimeError> {
        Err(RuntimeError::new(RuntimeErrorKind::TypeMismatch, span))
    }
    /// Contract stub for a nested block (conditions): records the entry, ends a loop after one pass.
    pub fn verif_block_once(&mut self, _block: BlockRef<'a>) -> Result<ExecFlow<'a>, RuntimeError> {
        unsafe { BLOCKS_ENTERED += 1 };
        Ok(ExecFlow::Break)
    }
    /// The native stack guard is the subject of C08, not of this property.
    pub fn verif_stack_ok(&self, _span: Span) -> Result<(), RuntimeError> {
        Ok(())
    }
}

/// kind: 0 number (any double), 1 string (2 symbolic ASCII bytes, borrowed), 2 bool, 3 null,
/// 4 empty array, 5 array with one number
fn any_value(kind: u8, frame: &'static Arena, text: &'static str) -> Value<'static> {
    match kind {
        0 => Value::Number(kani::any()),
        1 => Value::Str(ArenaCow::Borrowed(text)),
        2 => Value::Bool(kani::any()),
        3 => Value::Null,
        4 => Value::Array(Vec::new_in(frame)),
        _ => {
            let mut v: Vec<Value<'static>, &'static Arena> = Vec::with_capacity_in(1, frame);
            unsafe {
                std::ptr::write(v.as_mut_ptr(), Value::Number(kani::any()));
                v.set_len(1);
            }
            Value::Array(v)
        }
    }
}
fn two_bytes() -> [u8; 2] {
    let s: [u8; 2] = [kani::any(), kani::any()];
    kani::assume(s[0] < 128 && s[1] < 128);
    s
}
fn as_text(b: &[u8; 2]) -> &'static str {
    unsafe { std::mem::transmute::<&str, &'static str>(std::str::from_utf8_unchecked(b)) }
}

macro_rules! new_runtime {
    ($rt:ident, $frame:ident) => {
        let arena_store = Arena::new(100_000).unwrap();
        let arena: &'static Arena = unsafe { &*(&arena_store as *const Arena) };
        let frame_store = Arena::new(1).unwrap();
        let $frame: &'static Arena = unsafe { &*(&frame_store as *const Arena) };
        let mut $rt = Runtime::new(arena, Some($frame));
    };
}

// ---- 6.a binary operators ---------------------------------------------------------------------------
/// opclass: 0 and/or, 1 add, 2 minus/times, 3 divide/mod, 4 na/pass/small pass
fn binary_step(opclass: u8, lk: u8, rk: u8) {
    new_runtime!(rt, frame);
    let (s, t) = (two_bytes(), two_bytes());
    node!(l: Expr<'static> = Expr::Null(sp()));
    node!(r: Expr<'static> = Expr::Null(sp()));
    let pick: bool = kani::any();
    let third: bool = kani::any();
    let op = match opclass {
        0 => if pick { BinaryOp::And } else { BinaryOp::Or },
        1 => BinaryOp::Add,
        2 => if pick { BinaryOp::Minus } else { BinaryOp::Times },
        3 => if pick { BinaryOp::Divide } else { BinaryOp::Mod },
        _ => if third { BinaryOp::Eq } else if pick { BinaryOp::Gt } else { BinaryOp::Lt },
    };
    node!(b: Expr<'static> = Expr::Binary { op, lhs: l, rhs: r, span: sp() });
    unsafe {
        EV_NODE0 = (l as *const Expr<'static>).cast::<u8>();
        EV_NODE1 = std::ptr::null();
        EV_VALS[0] = Some(any_value(lk, frame, as_text(&s)));
        EV_VALS[1] = Some(any_value(rk, frame, as_text(&t)));
        EV_CALLS = 0;
    }
    let out = rt.verif_outer_eval_expr(b);
    // left-to-right, each operand at most once, the right one possibly not at all (short circuit)
    let calls = unsafe { EV_CALLS };
    assert!(calls >= 1 && calls <= 2, "operand-order: the left operand is evaluated, then at most the right one");
    assert!(unsafe { EV_ORDER[0] } == 0, "operand-order: the left operand is evaluated first");
    assert!(calls < 2 || unsafe { EV_ORDER[1] } == 1, "operand-order: the right operand is evaluated second");
    assert!(calls == 2 || opclass == 0, "operand-order: only and/or may skip the right operand");
    // vacuity guards: the step is reached, and a combination the language documents yields a value
    let scalar = |k: u8| k < 4;
    let documented = match opclass {
        0 => lk == 2 || lk == 3 || rk == 2 || rk == 3,
        1 => (lk == 0 || lk == 1) && (rk == 0 || rk == 1),
        2 | 3 => lk == 0 && rk == 0,
        _ => (lk == rk && scalar(lk)) || ((lk == 3 || rk == 3) && lk != 4 && rk != 4),
    };
    kani::cover!(true, "binary step reached");
    kani::cover!(!documented || out.is_ok(), "a documented combination yields a value");
    std::mem::forget(out);
    unsafe {
        std::mem::forget(EV_VALS[0].take());
        std::mem::forget(EV_VALS[1].take());
    }
    std::mem::forget(rt);
}
macro_rules! binary_step {
    ($name:ident, $opclass:literal, $lk:literal, $rk:literal) => {
        ev_proof! { #[kani::unwind(4)] fn $name() { binary_step($opclass, $lk, $rk) } }
    };
}

// ---- 6.b unary operators ----------------------------------------------------------------------------
fn unary_step(k: u8) {
    new_runtime!(rt, frame);
    let s = two_bytes();
    node!(e: Expr<'static> = Expr::Null(sp()));
    let op = if kani::any() { UnaryOp::Not } else { UnaryOp::Minus };
    node!(u: Expr<'static> = Expr::Unary { op, expr: e, span: sp() });
    unsafe {
        EV_NODE0 = (e as *const Expr<'static>).cast::<u8>();
        EV_NODE1 = std::ptr::null();
        EV_VALS[0] = Some(any_value(k, frame, as_text(&s)));
        EV_CALLS = 0;
    }
    let out = rt.verif_outer_eval_expr(u);
    assert!(unsafe { EV_CALLS } == 1, "operand-order: the operand is evaluated once");
    kani::cover!(true, "unary step reached");
    std::mem::forget(out);
    unsafe { std::mem::forget(EV_VALS[0].take()) };
    std::mem::forget(rt);
}
macro_rules! unary_step {
    ($name:ident, $k:literal) => {
        ev_proof! { #[kani::unwind(4)] fn $name() { unary_step($k) } }
    };
}

// ---- 6.c indexing -----------------------------------------------------------------------------------
fn index_step(ak: u8, ik: u8) {
    new_runtime!(rt, frame);
    let (s, t) = (two_bytes(), two_bytes());
    node!(a: Expr<'static> = Expr::Null(sp()));
    node!(i: Expr<'static> = Expr::Null(sp()));
    node!(x: Expr<'static> = Expr::Index { array: a, index: i, index_span: sp(), span: sp() });
    unsafe {
        EV_NODE0 = (a as *const Expr<'static>).cast::<u8>();
        EV_NODE1 = std::ptr::null();
        EV_VALS[0] = Some(any_value(ak, frame, as_text(&s)));
        EV_VALS[1] = Some(any_value(ik, frame, as_text(&t)));
        EV_CALLS = 0;
    }
    let out = rt.verif_outer_eval_expr(x);
    assert!(unsafe { EV_CALLS } == 2, "operand-order: the array and the index are each evaluated once");
    if ak == 4 {
        assert!(out.is_err(), "bounds: indexing an empty array is a reported error");
    }
    kani::cover!(ak != 5 || ik != 0 || out.is_ok(), "an index in range");
    kani::cover!(ak != 5 || ik != 0 || out.is_err(), "an index out of range");
    std::mem::forget(out);
    unsafe {
        std::mem::forget(EV_VALS[0].take());
        std::mem::forget(EV_VALS[1].take());
    }
    std::mem::forget(rt);
}
macro_rules! index_step {
    ($name:ident, $ak:literal, $ik:literal) => {
        ev_proof! { #[kani::unwind(4)] fn $name() { index_step($ak, $ik) } }
    };
}

// ---- 6.d conditions ---------------------------------------------------------------------------------
static mut BLOCKS_ENTERED: usize = 0;
fn cond_step(k: u8, is_loop: bool) {
    new_runtime!(rt, frame);
    let s = two_bytes();
    node!(c: Expr<'static> = Expr::Null(sp()));
    node!(stmts: [StmtRef<'static>; 0] = []);
    node!(body: Block<'static> = Block { stmts: &stmts[..], span: sp() });
    node!(st_if: Stmt<'static> = Stmt::If { cond: c, then_b: body, else_b: None, span: sp() });
    node!(st_loop: Stmt<'static> = Stmt::Loop { cond: c, body, span: sp() });
    unsafe {
        EV_NODE0 = (c as *const Expr<'static>).cast::<u8>();
        EV_NODE1 = std::ptr::null();
        EV_VALS[0] = Some(any_value(k, frame, as_text(&s)));
        EV_CALLS = 0;
        BLOCKS_ENTERED = 0;
    }
    let out = rt.exec_stmt(if is_loop { st_loop } else { st_if });
    assert!(unsafe { EV_CALLS } == 1, "operand-order: the condition is evaluated once per pass");
    assert!(unsafe { BLOCKS_ENTERED } <= 1, "condition: the body is entered at most once per pass");
    if k == 3 {
        assert!(unsafe { BLOCKS_ENTERED } == 0, "condition: null is falsy");
    }
    kani::cover!(k != 2 || unsafe { BLOCKS_ENTERED } == 1, "a true condition enters the body");
    std::mem::forget(out);
    unsafe { std::mem::forget(EV_VALS[0].take()) };
    std::mem::forget(rt);
}
macro_rules! cond_step {
    ($name:ident, $k:literal, $is_loop:literal) => {
        ev_proof! {
            #[kani::stub(crate::runtime::Runtime::exec_block_with_flow, crate::runtime::Runtime::verif_block_once)]
            #[kani::unwind(4)]
            fn $name() { cond_step($k, $is_loop) }
        }
    };
}

// ---- 6.e member calls on receivers and arguments typed only at run time ------------------------------
// The text kernels are cut (they are C13's subject and far too heavy here): each returns an arbitrary
// result of its type.  What is decided is the dispatch: receiver kind x method x argument count x
// argument kinds ends with a value or a reported error.
fn k_slice<'arena>(_s: &str, _a: f64, _b: f64, arena: &'arena Arena) -> ArenaString<'arena> { ArenaString::new_in(arena) }
fn k_text1<'arena>(_s: &str, arena: &'arena Arena) -> ArenaString<'arena> { ArenaString::new_in(arena) }
fn k_find(_h: &str, _n: &str) -> f64 { kani::any() }
fn k_num1(_s: &str) -> f64 { kani::any() }
fn k_replace<'arena>(_s: &str, _o: &str, _n: &str, arena: &'arena Arena) -> ArenaString<'arena> { ArenaString::new_in(arena) }
fn k_join<'a>(_array: &Vec<Value<'a>, &'a Arena>, _sep: &str, arena: &'a Arena) -> ArenaString<'a> { ArenaString::new_in(arena) }

fn member_step(field_id: u8, nargs: usize, rk: u8, k0: u8, k1: u8) {
    new_runtime!(rt, frame);
    let (s, t, u) = (two_bytes(), two_bytes(), two_bytes());
    node!(obj: Expr<'static> = Expr::Null(sp()));
    node!(a0: Expr<'static> = Expr::Null(sp()));
    node!(a1: Expr<'static> = Expr::Null(sp()));
    node!(args0: [ExprRef<'static>; 0] = []);
    node!(args1: [ExprRef<'static>; 1] = [a0]);
    node!(args2: [ExprRef<'static>; 2] = [a0, a1]);
    node!(al0: ArgList<'static> = ArgList { args: &args0[..] });
    node!(al1: ArgList<'static> = ArgList { args: &args1[..] });
    node!(al2: ArgList<'static> = ArgList { args: &args2[..] });
    let al: &'static ArgList<'static> = match nargs { 0 => al0, 1 => al1, _ => al2 };
    let field: &'static str = match field_id {
        0 => "len", 1 => "slice", 2 => "find", 3 => "replace", 4 => "split", 5 => "join", 6 => "abs", 7 => "push",
        8 => "pop", 9 => "trim", _ => "nosuch",
    };
    // every kind is concrete per instance (a symbolic kind drags the recursive drop glue of arrays into
    // every path); the contents are symbolic
    // split with a string pattern runs the real splitter (C13); the well-typed call is not the subject here
    kani::assume(field_id != 4 || k0 != 1);
    unsafe {
        EV_NODE0 = (obj as *const Expr<'static>).cast::<u8>();
        EV_NODE1 = (a0 as *const Expr<'static>).cast::<u8>();
        EV_VALS[0] = Some(any_value(rk, frame, as_text(&s)));
        EV_VALS[1] = Some(any_value(k0, frame, as_text(&t)));
        EV_VALS[2] = Some(any_value(k1, frame, as_text(&u)));
        EV_CALLS = 0;
    }
    let out = rt.eval_member_call(obj, field, al, sp());
    assert!(unsafe { EV_CALLS } <= 1 + nargs, "operand-order: the receiver and each argument are evaluated at most once");
    if field_id == 10 {
        assert!(out.is_err(), "unknown-method: a method the receiver does not have is a reported error");
    }
    kani::cover!(true, "member step reached");
    std::mem::forget(out);
    unsafe {
        std::mem::forget(EV_VALS[0].take());
        std::mem::forget(EV_VALS[1].take());
        std::mem::forget(EV_VALS[2].take());
    }
    std::mem::forget(rt);
}
macro_rules! member_step {
    ($name:ident, $field:literal, $nargs:literal, $rk:literal, $k0:literal, $k1:literal) => {
        ev_proof! {
            #[kani::stub(crate::builtins::string::StringBuiltin::slice, k_slice)]
            #[kani::stub(crate::builtins::string::StringBuiltin::to_uppercase, k_text1)]
            #[kani::stub(crate::builtins::string::StringBuiltin::to_lowercase, k_text1)]
            #[kani::stub(crate::builtins::string::StringBuiltin::trim, k_text1)]
            #[kani::stub(crate::builtins::string::StringBuiltin::find, k_find)]
            #[kani::stub(crate::builtins::string::StringBuiltin::to_number, k_num1)]
            #[kani::stub(crate::builtins::string::StringBuiltin::len, k_num1)]
            #[kani::stub(crate::builtins::string::StringBuiltin::replace, k_replace)]
            #[kani::stub(crate::builtins::array::ArrayBuiltin::join, k_join)]
            #[kani::stub(crate::runtime::Runtime::eval_process_command_call, crate::runtime::Runtime::verif_no_process_call)]
            #[kani::stub(crate::runtime::Runtime::eval_process_command_call_mut, crate::runtime::Runtime::verif_process_builder_cut)]
            #[kani::unwind(8)]
            fn $name() { member_step($field, $nargs, $rk, $k0, $k1) }
        }
    };
}

// ---- 6.f index chains whose base is not a variable (`f()[0] get 2`, `f()[0].push(1)`) -----------------
fn index_target_step() {
    new_runtime!(rt, frame);
    node!(f: Expr<'static> = Expr::Var("f", sp()));
    node!(args0: [ExprRef<'static>; 0] = []);
    node!(al0: ArgList<'static> = ArgList { args: &args0[..] });
    node!(call: Expr<'static> = Expr::Call { callee: f, args: al0, span: sp() });
    node!(i: Expr<'static> = Expr::Null(sp()));
    node!(x: Expr<'static> = Expr::Index { array: call, index: i, index_span: sp(), span: sp() });
    // The routine both `assign_index` and `get_mutable_array` start with is decided on its own: their remaining
    // code (variable lookup, element replacement, drop of the replaced value) is unreachable once it reports the
    // error, but the model checker explores it with symbolic element tags and did not finish in 900 s.
    let flat = rt.flatten_index_target(x);
    assert!(flat.is_err(), "index-target: an index chain that does not start at a variable is a reported error");
    kani::cover!(true, "index target step reached");
    std::mem::forget(flat);
    std::mem::forget(rt);
}
macro_rules! index_target_step {
    ($name:ident) => { ev_proof! { #[kani::unwind(4)] fn $name() { index_target_step() } } };
}

// ---- 6.g shapes the parser builds and the static checker lets through: `x.len` without a call, `a[0]()` ---
fn bare_member_step() {
    new_runtime!(rt, frame);
    node!(obj: Expr<'static> = Expr::Null(sp()));
    node!(m: Expr<'static> = Expr::Member { object: obj, field: "len", field_span: sp(), span: sp() });
    unsafe {
        EV_NODE0 = (obj as *const Expr<'static>).cast::<u8>();
        EV_NODE1 = std::ptr::null();
        EV_BY_CALL = false;
        EV_VALS[0] = Some(Value::Null);
        EV_CALLS = 0;
    }
    let out = rt.verif_outer_eval_expr(m);
    assert!(out.is_err(), "bare-member: a member access that is not called is a reported error");
    kani::cover!(true, "bare member step reached");
    std::mem::forget(out);
    unsafe { std::mem::forget(EV_VALS[0].take()) };
    std::mem::forget(rt);
}
ev_proof! { #[kani::unwind(4)] fn bare_member() { bare_member_step() } }

impl<'a> Runtime<'a> {
    pub fn verif_no_member_call(&mut self, _o: ExprRef<'a>, _f: &'a str, _a: &'a ArgList<'a>, _s: Span) -> Result<Value<'a>, RuntimeError> {
        assert!(false, "cut: no member call in this step");
        Ok(Value::Null)
    }
    pub fn verif_no_builtin_call(&mut self, _b: GlobalBuiltin, _a: &'a ArgList<'a>, _s: Span) -> Result<Value<'a>, RuntimeError> {
        assert!(false, "cut: no builtin call in this step");
        Ok(Value::Null)
    }
}
fn callee_step() {
    new_runtime!(rt, frame);
    node!(a: Expr<'static> = Expr::Null(sp()));
    node!(i: Expr<'static> = Expr::Null(sp()));
    node!(callee: Expr<'static> = Expr::Index { array: a, index: i, index_span: sp(), span: sp() });
    node!(args0: [ExprRef<'static>; 0] = []);
    node!(al0: ArgList<'static> = ArgList { args: &args0[..] });
    node!(call: Expr<'static> = Expr::Call { callee, args: al0, span: sp() });
    let out = rt.eval_function_call(call);
    assert!(out.is_err(), "callee: calling something that is not a function name or a method is a reported error");
    kani::cover!(true, "callee step reached");
    std::mem::forget(out);
    std::mem::forget(rt);
}
#[kani::proof]
#[kani::stub(crate::sys::unix::UnixVirtualMemory::reserve, ev_reserve)]
#[kani::stub(crate::sys::unix::UnixVirtualMemory::commit, crate::verif_common::commit_ok)]
#[kani::stub(crate::sys::unix::UnixVirtualMemory::decommit, crate::verif_common::vm_nop)]
#[kani::stub(crate::sys::unix::UnixVirtualMemory::release, crate::verif_common::vm_nop)]
#[kani::stub(crate::arena::pool::PoolSet::new, crate::arena::pool::PoolSet::verif_static)]
#[kani::stub(crate::arena::pool::PoolSet::contains, crate::arena::pool::PoolSet::verif_contains2)]
#[kani::stub(core::fmt::write, crate::verif_common::fmt_write)]
#[kani::stub(crate::runtime::Runtime::eval_expr, crate::runtime::Runtime::verif_eval_prepared)]
#[kani::stub(crate::runtime::Runtime::check_stack, crate::runtime::Runtime::verif_stack_ok)]
#[kani::stub(crate::runtime::Runtime::eval_member_call, crate::runtime::Runtime::verif_no_member_call)]
#[kani::stub(crate::runtime::Runtime::eval_builtin_call, crate::runtime::Runtime::verif_no_builtin_call)]
#[kani::stub(crate::runtime::Runtime::exec_block_with_flow, crate::runtime::Runtime::verif_block_once)]
#[kani::unwind(4)]
fn callee_not_a_name() { callee_step() }

// ---- 6.h global built-ins with an argument of any kind (`command(x)`, `typeof(x)`) -------------------------
fn ev_reserve_1k(_size: usize) -> Result<std::ptr::NonNull<u8>, u32> {
    let layout = std::alloc::Layout::from_size_align(1024, 4096).unwrap();
    let p = unsafe { std::alloc::alloc(layout) };
    std::ptr::NonNull::new(p).ok_or(12)
}
fn builtin_step(which: u8, k: u8) {
    new_runtime!(rt, frame);
    let s = two_bytes();
    node!(a0: Expr<'static> = Expr::Null(sp()));
    node!(args1: [ExprRef<'static>; 1] = [a0]);
    node!(al1: ArgList<'static> = ArgList { args: &args1[..] });
    unsafe {
        EV_NODE0 = (a0 as *const Expr<'static>).cast::<u8>();
        EV_NODE1 = std::ptr::null();
        EV_BY_CALL = false;
        EV_VALS[0] = Some(any_value(k, frame, as_text(&s)));
        EV_CALLS = 0;
    }
    let builtin = if which == 0 { GlobalBuiltin::Command } else { GlobalBuiltin::TypeOf };
    let out = rt.eval_builtin_call(builtin, al1, sp());
    assert!(unsafe { EV_CALLS } == 1, "operand-order: the argument is evaluated once");
    if which == 0 {
        assert!(out.is_ok() == (k == 1), "builtin-argument: command takes a string; any other kind is a reported error");
    } else {
        assert!(out.is_ok(), "builtin-argument: typeof answers for every kind");
    }
    kani::cover!(true, "builtin step reached");
    std::mem::forget(out);
    unsafe { std::mem::forget(EV_VALS[0].take()) };
    std::mem::forget(rt);
}
macro_rules! builtin_step {
    ($name:ident, $which:literal, $k:literal) => {
        #[kani::proof]
        #[kani::stub(crate::sys::unix::UnixVirtualMemory::reserve, ev_reserve_1k)]
        #[kani::stub(crate::sys::unix::UnixVirtualMemory::commit, crate::verif_common::commit_ok)]
        #[kani::stub(crate::sys::unix::UnixVirtualMemory::decommit, crate::verif_common::vm_nop)]
        #[kani::stub(crate::sys::unix::UnixVirtualMemory::release, crate::verif_common::vm_nop)]
        #[kani::stub(crate::arena::pool::PoolSet::new, crate::arena::pool::PoolSet::verif_static)]
        #[kani::stub(crate::arena::pool::PoolSet::contains, crate::arena::pool::PoolSet::verif_contains2)]
        #[kani::stub(core::fmt::write, crate::verif_common::fmt_write)]
        #[kani::stub(crate::runtime::Runtime::eval_expr, crate::runtime::Runtime::verif_eval_prepared)]
        #[kani::stub(crate::runtime::Runtime::check_stack, crate::runtime::Runtime::verif_stack_ok)]
        #[kani::unwind(4)]
        fn $name() { builtin_step($which, $k) }
    };
}

// =====================================================================================================
// C01 — step semantics: the same steps, now with documented operands, compared with the documented
// result (IEEE double arithmetic, short circuit, truthiness of null, comparison tables, error kinds).
// =====================================================================================================
fn same_f64(a: f64, b: f64) -> bool {
    a.to_bits() == b.to_bits() || (a.is_nan() && b.is_nan())
}
fn is_bool(out: &Result<Value<'static>, RuntimeError>, want: bool) -> bool {
    matches!(out, Ok(Value::Bool(b)) if *b == want)
}
fn is_num(out: &Result<Value<'static>, RuntimeError>, want: f64) -> bool {
    match out {
        Ok(Value::Number(n)) => same_f64(*n, want),
        _ => false,
    }
}
fn is_err(out: &Result<Value<'static>, RuntimeError>, kind: RuntimeErrorKind) -> bool {
    matches!(out, Err(e) if e.kind == kind)
}
fn prepare2(l: &'static Expr<'static>, a: Value<'static>, b: Value<'static>) {
    unsafe {
        EV_NODE0 = (l as *const Expr<'static>).cast::<u8>();
        EV_NODE1 = std::ptr::null();
        EV_BY_CALL = false;
        EV_VALS[0] = Some(a);
        EV_VALS[1] = Some(b);
        EV_CALLS = 0;
    }
}
fn finish(out: Result<Value<'static>, RuntimeError>) {
    std::mem::forget(out);
    unsafe {
        std::mem::forget(EV_VALS[0].take());
        std::mem::forget(EV_VALS[1].take());
        std::mem::forget(EV_VALS[2].take());
    }
}
fn ordered_both() -> bool {
    unsafe { EV_CALLS == 2 && EV_ORDER[0] == 0 && EV_ORDER[1] == 1 }
}

/// op: 0 add, 1 minus, 2 times, 3 divide, 4 mod, 5 na, 6 pass, 7 small pass — on two numbers (any doubles)
fn sem_number(opsel: u8, small: bool) {
    new_runtime!(rt, frame);
    node!(l: Expr<'static> = Expr::Null(sp()));
    node!(r: Expr<'static> = Expr::Null(sp()));
    let op = match opsel {
        0 => BinaryOp::Add, 1 => BinaryOp::Minus, 2 => BinaryOp::Times, 3 => BinaryOp::Divide, 4 => BinaryOp::Mod,
        5 => BinaryOp::Eq, 6 => BinaryOp::Gt, _ => BinaryOp::Lt,
    };
    node!(b: Expr<'static> = Expr::Binary { op, lhs: l, rhs: r, span: sp() });
    // small: both operands whole numbers in -128..127 (two 64-bit dividers do not fit in one SAT instance:
    // the exact quotient is decided on this range, the error/number split on all doubles)
    let (x, y): (f64, f64) = if small { (kani::any::<i8>() as f64, kani::any::<i8>() as f64) } else { (kani::any(), kani::any()) };
    prepare2(l, Value::Number(x), Value::Number(y));
    let out = rt.verif_outer_eval_expr(b);
    assert!(ordered_both(), "order: left operand first, then the right one, each once");
    match opsel {
        0 => assert!(is_num(&out, x + y), "arithmetic: add is IEEE double addition"),
        1 => assert!(is_num(&out, x - y), "arithmetic: minus is IEEE double subtraction"),
        2 => assert!(is_num(&out, x * y), "arithmetic: times is IEEE double multiplication"),
        3 => {
            if y == 0.0 {
                assert!(is_err(&out, RuntimeErrorKind::DivisionByZero), "division-by-zero: divide by zero is the reported error");
            } else if small {
                assert!(is_num(&out, x / y), "arithmetic: divide is IEEE double division");
            } else {
                assert!(matches!(out, Ok(Value::Number(_))), "arithmetic: divide of numbers is a number");
            }
        }
        4 => {
            if y == 0.0 {
                assert!(is_err(&out, RuntimeErrorKind::DivisionByZero), "division-by-zero: mod by zero is the reported error");
            } else {
                assert!(matches!(out, Ok(Value::Number(_))), "arithmetic: mod of numbers is a number");
            }
        }
        5 => {
            // equality is tolerant by a tiny epsilon: equal doubles are equal, clearly different ones are not
            if x == y {
                assert!(is_bool(&out, true), "comparison: equal numbers are `na`");
            }
            if x.is_finite() && y.is_finite() && (x - y > 0.001 || y - x > 0.001) {
                assert!(is_bool(&out, false), "comparison: different numbers are not `na`");
            }
            assert!(matches!(out, Ok(Value::Bool(_))), "comparison: `na` on numbers is a boolean");
        }
        6 => assert!(is_bool(&out, x > y), "comparison: pass is >"),
        _ => assert!(is_bool(&out, x < y), "comparison: small pass is <"),
    }
    kani::cover!(opsel > 4 || opsel == 3 || opsel == 4 || out.is_ok(), "a numeric result");
    kani::cover!(!(opsel == 3 || opsel == 4) || out.is_err(), "a division by zero");
    kani::cover!(!(opsel == 3 || opsel == 4) || out.is_ok(), "a quotient");
    finish(out);
    std::mem::forget(rt);
}
macro_rules! sem_number {
    ($name:ident, $op:literal, $small:literal) => { ev_proof! { #[kani::unwind(4)] fn $name() { sem_number($op, $small) } } };
}

/// and / or over {true, false, null} operands: short circuit, truthiness of null
fn sem_logic(is_and: bool, lnull: bool, rnull: bool) {
    new_runtime!(rt, frame);
    node!(l: Expr<'static> = Expr::Null(sp()));
    node!(r: Expr<'static> = Expr::Null(sp()));
    node!(b: Expr<'static> = Expr::Binary { op: if is_and { BinaryOp::And } else { BinaryOp::Or }, lhs: l, rhs: r, span: sp() });
    let (x, y): (bool, bool) = (kani::any(), kani::any());
    prepare2(l, if lnull { Value::Null } else { Value::Bool(x) }, if rnull { Value::Null } else { Value::Bool(y) });
    let out = rt.verif_outer_eval_expr(b);
    let lt = !lnull && x; // null is falsy
    let rt_ = !rnull && y;
    let calls = unsafe { EV_CALLS };
    assert!(unsafe { EV_ORDER[0] } == 0, "order: the left operand is evaluated first");
    if is_and {
        assert!(is_bool(&out, lt && rt_), "logic: and");
        assert!(calls == if lt { 2 } else { 1 }, "short-circuit: and skips the right operand iff the left one is falsy");
    } else {
        assert!(is_bool(&out, lt || rt_), "logic: or");
        assert!(calls == if lt { 1 } else { 2 }, "short-circuit: or skips the right operand iff the left one is true");
    }
    // a null left operand decides `and` at once and never decides `or`
    kani::cover!(calls == 1 || (lnull && !is_and), "a short-circuited evaluation");
    kani::cover!(calls == 2 || (lnull && is_and), "both operands evaluated");
    finish(out);
    std::mem::forget(rt);
}
macro_rules! sem_logic {
    ($name:ident, $and:literal, $ln:literal, $rn:literal) => { ev_proof! { #[kani::unwind(4)] fn $name() { sem_logic($and, $ln, $rn) } } };
}

/// comparisons on booleans, null, and null against anything
/// shape: 0 bool/bool, 1 null/null, 2 null/other, 3 other/null (other: number | string | bool)
fn sem_compare(shape: u8, ok: u8) {
    new_runtime!(rt, frame);
    let s = two_bytes();
    node!(l: Expr<'static> = Expr::Null(sp()));
    node!(r: Expr<'static> = Expr::Null(sp()));
    let which: u8 = kani::any();
    kani::assume(which < 3);
    let op = match which { 0 => BinaryOp::Eq, 1 => BinaryOp::Gt, _ => BinaryOp::Lt };
    node!(b: Expr<'static> = Expr::Binary { op, lhs: l, rhs: r, span: sp() });
    let (x, y): (bool, bool) = (kani::any(), kani::any());
    // the other operand's kind is concrete per instance (a symbolic kind pulls in the drop glue of every kind)
    let other = |frame: &'static Arena| any_value(ok, frame, as_text(&s));
    match shape {
        0 => prepare2(l, Value::Bool(x), Value::Bool(y)),
        1 => prepare2(l, Value::Null, Value::Null),
        2 => prepare2(l, Value::Null, other(frame)),
        _ => prepare2(l, other(frame), Value::Null),
    }
    let out = rt.verif_outer_eval_expr(b);
    assert!(ordered_both(), "order: left operand first, then the right one, each once");
    match shape {
        0 => match which {
            0 => assert!(is_bool(&out, x == y), "comparison: booleans are `na` iff equal"),
            1 => assert!(is_bool(&out, x && !y), "comparison: false orders before true (pass)"),
            _ => assert!(is_bool(&out, !x && y), "comparison: false orders before true (small pass)"),
        },
        // docs/NULL.md fixes `na`; an ordering comparison with null is only required not to hold
        1 => {
            if which == 0 {
                assert!(is_bool(&out, true), "null: null na null");
            } else {
                assert!(is_bool(&out, false) || out.is_err(), "null: null does not pass null");
            }
        }
        _ => {
            if which == 0 {
                assert!(is_bool(&out, false), "null: null is not `na` a value of another type");
            } else {
                assert!(is_bool(&out, false) || out.is_err(), "null: an ordering comparison with null does not hold");
            }
        }
    }
    kani::cover!(true, "comparison step reached");
    finish(out);
    std::mem::forget(rt);
}
macro_rules! sem_compare {
    ($name:ident, $shape:literal, $ok:literal) => { ev_proof! { #[kani::unwind(4)] fn $name() { sem_compare($shape, $ok) } } };
}

/// strings: add concatenates, na/pass/small pass compare by bytes
fn sem_string(opsel: u8) {
    new_runtime!(rt, frame);
    let (s, t) = (two_bytes(), two_bytes());
    node!(l: Expr<'static> = Expr::Null(sp()));
    node!(r: Expr<'static> = Expr::Null(sp()));
    let op = match opsel { 0 => BinaryOp::Add, 1 => BinaryOp::Eq, 2 => BinaryOp::Gt, _ => BinaryOp::Lt };
    node!(b: Expr<'static> = Expr::Binary { op, lhs: l, rhs: r, span: sp() });
    prepare2(l, Value::Str(ArenaCow::Borrowed(as_text(&s))), Value::Str(ArenaCow::Borrowed(as_text(&t))));
    let mark = frame.offset();
    let out = rt.verif_outer_eval_expr(b);
    assert!(ordered_both(), "order: left operand first, then the right one, each once");
    let less = s[0] < t[0] || (s[0] == t[0] && s[1] < t[1]);
    let equal = s[0] == t[0] && s[1] == t[1];
    match opsel {
        0 => match &out {
            Ok(Value::Str(c)) => {
                assert!(c.len() == 4, "concatenation: the length is the sum of the lengths");
                // the result is a fresh frame string: read it at its known place
                let p = unsafe { fbase(frame).add(mark) };
                assert!(c.as_bytes().as_ptr() == p, "concatenation: the result is a new string on the frame");
                let got = unsafe { [*p, *p.add(1), *p.add(2), *p.add(3)] };
                assert!(got == [s[0], s[1], t[0], t[1]], "concatenation: left bytes then right bytes");
            }
            _ => assert!(false, "concatenation: string add string is a string"),
        },
        1 => assert!(is_bool(&out, equal), "comparison: strings are `na` iff their bytes are equal"),
        2 => assert!(is_bool(&out, !less && !equal), "comparison: pass on strings is byte order"),
        _ => assert!(is_bool(&out, less), "comparison: small pass on strings is byte order"),
    }
    kani::cover!(true, "string step reached");
    finish(out);
    std::mem::forget(rt);
}
fn fbase(frame: &Arena) -> *const u8 {
    use std::alloc::{Allocator, Layout};
    let off = frame.offset();
    let p = frame.allocate(Layout::from_size_align(0, 1).unwrap()).unwrap();
    unsafe { p.cast::<u8>().as_ptr().sub(off) }
}
macro_rules! sem_string {
    ($name:ident, $op:literal) => { ev_proof! { #[kani::unwind(6)] fn $name() { sem_string($op) } } };
}

/// unary: not on bool/null, minus on a number
fn sem_unary(shape: u8) {
    new_runtime!(rt, frame);
    node!(e: Expr<'static> = Expr::Null(sp()));
    node!(u: Expr<'static> = Expr::Unary { op: if shape == 2 { UnaryOp::Minus } else { UnaryOp::Not }, expr: e, span: sp() });
    let x: bool = kani::any();
    let n: f64 = kani::any();
    prepare2(e, match shape { 0 => Value::Bool(x), 1 => Value::Null, _ => Value::Number(n) }, Value::Null);
    let out = rt.verif_outer_eval_expr(u);
    assert!(unsafe { EV_CALLS } == 1, "order: the operand is evaluated once");
    match shape {
        0 => assert!(is_bool(&out, !x), "logic: not negates a boolean"),
        1 => assert!(is_bool(&out, true), "null: not null is true"),
        _ => assert!(is_num(&out, -n), "arithmetic: unary minus negates (sign bit flip)"),
    }
    kani::cover!(true, "unary step reached");
    finish(out);
    std::mem::forget(rt);
}
macro_rules! sem_unary {
    ($name:ident, $shape:literal) => { ev_proof! { #[kani::unwind(4)] fn $name() { sem_unary($shape) } } };
}

/// indexing the empty array: whole index -> out of bounds, anything else -> invalid index
fn sem_index_empty(ik: u8) {
    new_runtime!(rt, frame);
    let t = two_bytes();
    node!(a: Expr<'static> = Expr::Null(sp()));
    node!(i: Expr<'static> = Expr::Null(sp()));
    node!(x: Expr<'static> = Expr::Index { array: a, index: i, index_span: sp(), span: sp() });
    let n: f64 = kani::any();
    let iv = if ik == 0 { Value::Number(n) } else { any_value(ik, frame, as_text(&t)) };
    prepare2(a, Value::Array(Vec::new_in(frame)), iv);
    let out = rt.verif_outer_eval_expr(x);
    assert!(ordered_both(), "order: the array first, then the index, each once");
    // whole: finite and equal to its own integer part (decided on the bits: no libm in the oracle)
    // (every double of magnitude >= 2^53 is whole; below that the round trip through i64 is exact)
    let whole = n.is_finite() && (n >= 9007199254740992.0 || n <= -9007199254740992.0 || n as i64 as f64 == n);
    if ik == 0 {
        if whole {
            assert!(is_err(&out, RuntimeErrorKind::IndexOutOfBounds), "index-error: a whole index outside the array is `Index out of bounds`");
        } else {
            assert!(is_err(&out, RuntimeErrorKind::InvalidIndex), "index-error: a non-whole index is `Invalid index`");
        }
    } else {
        assert!(is_err(&out, RuntimeErrorKind::InvalidIndex), "index-error: an index that is not a number is `Invalid index`");
    }
    kani::cover!(ik != 0 || whole, "a whole index");
    kani::cover!(ik != 0 || !whole, "a non-whole index");
    kani::cover!(true, "index step reached");
    finish(out);
    std::mem::forget(rt);
}
macro_rules! sem_index_empty {
    ($name:ident, $ik:literal) => { ev_proof! { #[kani::unwind(4)] fn $name() { sem_index_empty($ik) } } };
}

// ---- conditions and loop control -----------------------------------------------------------------------
static mut BLOCK_SEQ: [*const u8; 4] = [std::ptr::null(); 4];
static mut BLOCK_N: usize = 0;
static mut BLOCK_FLOW: [u8; 2] = [0; 2];
impl<'a> Runtime<'a> {
    /// Contract stub for a nested block: records which block was entered; the n-th entry ends with the
    /// n-th prepared flow (0 normal end, 1 comot, 2 next, 3 return 7).
    pub fn verif_block_flow(&mut self, block: BlockRef<'a>) -> Result<ExecFlow<'a>, RuntimeError> {
        let n = unsafe { BLOCK_N };
        if n < 4 {
            unsafe { BLOCK_SEQ[n] = (block as *const Block<'a>).cast::<u8>() };
        }
        unsafe { BLOCK_N = n + 1 };
        Ok(match unsafe { BLOCK_FLOW[if n < 2 { n } else { 1 }] } {
            0 => ExecFlow::Continue,
            1 => ExecFlow::Break,
            2 => ExecFlow::LoopContinue,
            _ => ExecFlow::Return(Value::Number(7.0)),
        })
    }
}
fn flow_code(r: &Result<ExecFlow<'static>, RuntimeError>) -> u8 {
    match r {
        Ok(ExecFlow::Continue) => 0,
        Ok(ExecFlow::Break) => 1,
        Ok(ExecFlow::LoopContinue) => 2,
        Ok(ExecFlow::Return(Value::Number(n))) if *n == 7.0 => 3,
        Ok(ExecFlow::Return(_)) => 4,
        Err(_) => 5,
    }
}
/// if / else: exactly the chosen branch runs, and its way of ending is passed on
fn sem_if(has_else: bool, cnull: bool) {
    new_runtime!(rt, frame);
    node!(c: Expr<'static> = Expr::Null(sp()));
    node!(stmts: [StmtRef<'static>; 0] = []);
    node!(b1: Block<'static> = Block { stmts: &stmts[..], span: sp() });
    node!(b2: Block<'static> = Block { stmts: &stmts[..], span: sp() });
    node!(st: Stmt<'static> = Stmt::If { cond: c, then_b: b1, else_b: if has_else { Some(b2) } else { None }, span: sp() });
    let x: bool = kani::any();
    let f: u8 = kani::any();
    kani::assume(f < 4);
    prepare2(c, if cnull { Value::Null } else { Value::Bool(x) }, Value::Null);
    unsafe { BLOCK_N = 0; BLOCK_FLOW = [f, f]; }
    let out = rt.exec_stmt(st);
    let truthy = !cnull && x;
    let n = unsafe { BLOCK_N };
    assert!(unsafe { EV_CALLS } == 1, "order: the condition is evaluated once");
    if truthy {
        assert!(n == 1 && unsafe { BLOCK_SEQ[0] } == (b1 as *const Block<'static>).cast::<u8>(), "branch: a true condition runs the first block only");
        assert!(flow_code(&out) == f, "control-flow: the branch's way of ending (end, comot, next, return) is passed on");
    } else if has_else {
        assert!(n == 1 && unsafe { BLOCK_SEQ[0] } == (b2 as *const Block<'static>).cast::<u8>(), "branch: a false or null condition runs the else block only");
        assert!(flow_code(&out) == f, "control-flow: the branch's way of ending (end, comot, next, return) is passed on");
    } else {
        assert!(n == 0 && flow_code(&out) == 0, "branch: a false or null condition without else runs nothing");
    }
    kani::cover!(truthy || cnull, "then branch");
    kani::cover!(!truthy, "else branch or nothing");
    std::mem::forget(out);
    unsafe { std::mem::forget(EV_VALS[0].take()); std::mem::forget(EV_VALS[1].take()); }
    std::mem::forget(rt);
}
macro_rules! sem_if {
    ($name:ident, $else:literal, $cnull:literal) => {
        ev_proof! {
            #[kani::stub(crate::runtime::Runtime::exec_block_with_flow, crate::runtime::Runtime::verif_block_flow)]
            #[kani::unwind(4)]
            fn $name() { sem_if($else, $cnull) }
        }
    };
}
/// jasi: up to two passes; comot ends the loop, next and a normal end go on to the next test of the
/// condition, return leaves the loop with its value
fn sem_loop(f0: u8, f1: u8) {
    new_runtime!(rt, frame);
    node!(c: Expr<'static> = Expr::Null(sp()));
    node!(stmts: [StmtRef<'static>; 0] = []);
    node!(body: Block<'static> = Block { stmts: &stmts[..], span: sp() });
    node!(st: Stmt<'static> = Stmt::Loop { cond: c, body, span: sp() });
    let (c0, c1): (bool, bool) = (kani::any(), kani::any());
    // the two passes' ways of ending are concrete per instance (a symbolic one drags the drop glue of a
    // returned value into every pass)
    unsafe {
        EV_NODE0 = (c as *const Expr<'static>).cast::<u8>();
        EV_NODE1 = std::ptr::null();
        EV_BY_CALL = true;
        EV_VALS[0] = Some(Value::Bool(c0));
        EV_VALS[1] = Some(Value::Bool(c1));
        EV_VALS[2] = Some(Value::Null); // a third test of the condition ends the loop (null is falsy)
        EV_CALLS = 0;
        BLOCK_N = 0;
        BLOCK_FLOW = [f0, f1];
    }
    let out = rt.exec_stmt(st);
    let (tests, passes) = unsafe { (EV_CALLS, BLOCK_N) };
    // reference: what the documented loop does with these two condition values and body endings
    let (want_tests, want_passes, want_flow) = if !c0 {
        (1, 0, 0)
    } else if f0 == 1 {
        (1, 1, 0)
    } else if f0 == 3 {
        (1, 1, 3)
    } else if !c1 {
        (2, 1, 0)
    } else if f1 == 1 {
        (2, 2, 0)
    } else if f1 == 3 {
        (2, 2, 3)
    } else {
        (3, 2, 0)
    };
    assert!(tests == want_tests, "loop: the condition is tested before every pass and after every pass that ends normally or with next");
    assert!(passes == want_passes, "loop: the body runs once per true test; comot and return end the loop");
    assert!(flow_code(&out) == want_flow, "loop: comot ends the loop normally, return leaves it with its value");
    kani::cover!(passes == 2 || matches!(f0, 1 | 3), "a second pass");
    kani::cover!(tests == 1, "a loop that ends at its first test or pass");
    std::mem::forget(out);
    unsafe {
        EV_BY_CALL = false;
        std::mem::forget(EV_VALS[0].take());
        std::mem::forget(EV_VALS[1].take());
        std::mem::forget(EV_VALS[2].take());
    }
    std::mem::forget(rt);
}
macro_rules! sem_loop {
    ($name:ident, $f0:literal, $f1:literal) => {
        ev_proof! {
            #[kani::stub(crate::runtime::Runtime::exec_block_with_flow, crate::runtime::Runtime::verif_block_flow)]
            #[kani::unwind(5)]
            fn $name() { sem_loop($f0, $f1) }
        }
    };
}
