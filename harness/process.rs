// C15 harnesses — child module of `process`: builder, validation, clone paths.
#![allow(dead_code, unused)]
use super::*;
use crate::verif_common::vm_proof;

fn has(b: &[u8], c: u8) -> bool {
    let mut i = 0;
    while i < b.len() {
        if b[i] == c {
            return true;
        }
        i += 1;
    }
    false
}

fn bytes_eq(a: &[u8], b: &[u8]) -> bool {
    if a.len() != b.len() {
        return false;
    }
    let mut i = 0;
    while i < a.len() {
        if a[i] != b[i] {
            return false;
        }
        i += 1;
    }
    true
}

fn any_ascii<const L: usize>() -> [u8; L] {
    let mut out = [0u8; L];
    let mut i = 0;
    while i < L {
        let b: u8 = kani::any();
        kani::assume(b < 0x80);
        out[i] = b;
        i += 1;
    }
    out
}

/// An ArenaString over a harness-owned buffer (no copy; what the evaluator hands the builder).
fn mk<'a, const L: usize>(buf: &'a [u8; L], arena: &'a Arena) -> ArenaString<'a> {
    unsafe { ArenaString::from_raw_parts(NonNull::new_unchecked(buf.as_ptr() as *mut u8), L, arena) }
}

fn any_caps() -> ProcessCaps {
    ProcessCaps {
        max_program_bytes: kani::any(),
        max_cwd_bytes: kani::any(),
        max_args: kani::any(),
        max_arg_bytes: kani::any(),
        max_total_arg_bytes: kani::any(),
        max_env_pairs: kani::any(),
        max_env_key_bytes: kani::any(),
        max_env_value_bytes: kani::any(),
        max_total_env_bytes: kani::any(),
        max_stdin_bytes: kani::any(),
        max_capture_bytes_per_stream: kani::any(),
        default_timeout_ms: kani::any(),
        max_timeout_ms: kani::any(),
        wait_poll_ms: kani::any(),
    }
}

fn any_output_policy() -> OutputPolicy {
    let k: u8 = kani::any();
    kani::assume(k < 3);
    match k {
        0 => OutputPolicy::Inherit,
        1 => OutputPolicy::Null,
        _ => OutputPolicy::Capture,
    }
}

// ---- 15.a validate_named_text ------------------------------------------------------
fn named_text<const L: usize>() {
    let b = any_ascii::<L>();
    let s = unsafe { std::str::from_utf8_unchecked(&b) };
    let max: u32 = kani::any();
    let allow_empty: bool = kani::any();
    let forbid_eq: bool = kani::any();
    let r = validate_named_text("x", s, max, allow_empty, forbid_eq);
    let ok = (allow_empty || L > 0) && !has(&b, 0) && (!forbid_eq || !has(&b, b'=')) && (L as u32) <= max;
    assert!(r.is_ok() == ok, "text-rule: accepted iff non-empty-or-allowed, no NUL, no '=' where forbidden, within the byte cap");
    if let Ok(n) = r {
        assert!(n as usize == L, "text-rule: reported length is the byte length");
    }
    kani::cover!(L == 0 || (r.is_err() && !has(&b, 0) && (L as u32) > max), "byte cap trips alone");
    kani::cover!(L == 0 || (r.is_err() && has(&b, 0)), "NUL rejected");
    kani::cover!(r.is_ok(), "accepted");
    std::mem::forget(r);
}
macro_rules! named_text {
    ($name:ident, $l:literal) => {
        #[kani::proof]
        #[kani::unwind(6)]
        fn $name() { named_text::<$l>() }
    };
}

// ---- 15.b validate ---------------------------------------------------------------------
// Shape: NA args and NE env pairs, every arg/key/value/cwd/stdin string of length L,
// program of length PL; CWD: cwd set; SI: 0 inherit, 1 null, 2 text.
fn validate_exact<const NA: usize, const NE: usize, const L: usize, const PL: usize>(cwd_set: bool, si: u8) {
    let arena = Arena::new(1).unwrap();
    let arena: &'static Arena = unsafe { &*(&arena as *const Arena) };
    let caps = any_caps();
    let pb = any_ascii::<PL>();
    let a0 = any_ascii::<L>();
    let a1 = any_ascii::<L>();
    let k0 = any_ascii::<L>();
    let k1 = any_ascii::<L>();
    let v0 = any_ascii::<L>();
    let v1 = any_ascii::<L>();
    let cb = any_ascii::<L>();
    let sb = any_ascii::<L>();
    let mut cmd = ProcessCommand::new("", arena);
    cmd.program = mk(&pb, arena);
    if NA >= 1 { cmd.push_arg(mk(&a0, arena)); }
    if NA >= 2 { cmd.push_arg(mk(&a1, arena)); }
    // env pairs are placed directly so that two equal keys are possible too (set_env is 15.c)
    if NE >= 1 { cmd.env.push(EnvPair { key: mk(&k0, arena), value: mk(&v0, arena) }); }
    if NE >= 2 { cmd.env.push(EnvPair { key: mk(&k1, arena), value: mk(&v1, arena) }); }
    if cwd_set { cmd.set_cwd(mk(&cb, arena)); }
    match si {
        0 => cmd.set_stdin_policy(StdinPolicy::Inherit),
        1 => cmd.set_stdin_policy(StdinPolicy::Null),
        _ => cmd.set_stdin_text(mk(&sb, arena)),
    }
    let (so, se) = (any_output_policy(), any_output_policy());
    cmd.set_stdout_policy(so);
    cmd.set_stderr_policy(se);
    let tmo: Option<u32> = kani::any();
    cmd.timeout_ms = tmo;

    let r = cmd.validate(&caps);

    // ---- oracle: the documented limits ----
    let l = L as u32;
    let prog_ok = PL > 0 && !has(&pb, 0) && (PL as u32) <= caps.max_program_bytes;
    let count_ok = (NA as u32) <= caps.max_args && (NE as u32) <= caps.max_env_pairs;
    let arg_ok = |b: &[u8; L]| !has(b, 0) && l <= caps.max_arg_bytes;
    let args_ok = (NA < 1 || arg_ok(&a0)) && (NA < 2 || arg_ok(&a1));
    let total_arg_ok = (NA as u32) * l <= caps.max_total_arg_bytes;
    let cwd_ok = !cwd_set || (L > 0 && !has(&cb, 0) && l <= caps.max_cwd_bytes);
    let key_ok = |b: &[u8; L]| L > 0 && !has(b, 0) && !has(b, b'=') && l <= caps.max_env_key_bytes;
    let val_ok = |b: &[u8; L]| !has(b, 0) && l <= caps.max_env_value_bytes;
    let env_ok = (NE < 1 || (key_ok(&k0) && val_ok(&v0))) && (NE < 2 || (key_ok(&k1) && val_ok(&v1)));
    let total_env_ok = (NE as u32) * 2 * l <= caps.max_total_env_bytes;
    let stdin_ok = si != 2 || (!has(&sb, 0) && l <= caps.max_stdin_bytes);
    let t = match tmo { Some(t) => t, None => caps.default_timeout_ms };
    let t_ok = t > 0 && t <= caps.max_timeout_ms;
    let want_ok = prog_ok && count_ok && args_ok && total_arg_ok && cwd_ok && env_ok && total_env_ok && stdin_ok && t_ok;
    assert!(r.is_ok() == want_ok, "limits: validate accepts exactly the commands within every configured limit");

    if let Ok(spec) = &r {
        // fidelity: what will be spawned is byte-for-byte and count-for-count what was configured
        assert!(bytes_eq(spec.program.as_bytes(), &pb), "fidelity: program bytes");
        assert!(spec.args.len() == NA, "fidelity: argument count (no splitting, no dropping)");
        if NA >= 1 { assert!(bytes_eq(spec.args[0].as_bytes(), &a0), "fidelity: argument 0 bytes"); }
        if NA >= 2 { assert!(bytes_eq(spec.args[1].as_bytes(), &a1), "fidelity: argument 1 bytes and order"); }
        assert!(spec.env.len() == NE, "fidelity: environment pair count");
        if NE >= 1 {
            assert!(bytes_eq(spec.env[0].key.as_bytes(), &k0) && bytes_eq(spec.env[0].value.as_bytes(), &v0), "fidelity: env pair 0");
        }
        if NE >= 2 {
            assert!(bytes_eq(spec.env[1].key.as_bytes(), &k1) && bytes_eq(spec.env[1].value.as_bytes(), &v1), "fidelity: env pair 1");
        }
        match spec.cwd {
            Some(c) => assert!(cwd_set && bytes_eq(c.as_bytes(), &cb), "fidelity: cwd bytes"),
            None => assert!(!cwd_set, "fidelity: cwd only when configured"),
        }
        match spec.stdin {
            StdinPolicy::Inherit => assert!(si == 0, "fidelity: stdin policy"),
            StdinPolicy::Null => assert!(si == 1, "fidelity: stdin policy"),
            StdinPolicy::Text(t) => assert!(si == 2 && bytes_eq(t.as_bytes(), &sb), "fidelity: stdin text bytes"),
        }
        assert!(spec.stdout == so && spec.stderr == se, "fidelity: output policies");
        assert!(spec.timeout_ms == t, "fidelity: timeout (default when unset)");
    }
    // each limit can trip alone (vacuity guard); shapes that no cap setting can make valid
    // (empty program, empty cwd, empty env key) witness the rejection instead
    let possible = PL > 0 && !(cwd_set && L == 0) && !(NE > 0 && L == 0);
    kani::cover!(if possible { r.is_ok() } else { r.is_err() }, "accepted (or, for a shape that is never valid, rejected)");
    kani::cover!(NA == 0 || L == 0 || (r.is_err() && prog_ok && count_ok && args_ok && !total_arg_ok), "total argument bytes trips alone");
    kani::cover!(NA == 0 || (r.is_err() && prog_ok && (NA as u32) > caps.max_args && (NE as u32) <= caps.max_env_pairs), "argument count trips alone");
    kani::cover!(NE == 0 || L == 0 || (r.is_err() && prog_ok && count_ok && args_ok && total_arg_ok && cwd_ok && env_ok && !total_env_ok), "total env bytes trips alone");
    kani::cover!(!possible || (r.is_err() && prog_ok && count_ok && args_ok && total_arg_ok && cwd_ok && env_ok && total_env_ok && stdin_ok && t == 0), "zero timeout trips alone");
    kani::cover!(!possible || (r.is_err() && prog_ok && count_ok && args_ok && total_arg_ok && cwd_ok && env_ok && total_env_ok && stdin_ok && t > caps.max_timeout_ms), "timeout above max trips alone");
    kani::cover!(PL == 0 || (r.is_err() && !has(&pb, 0) && (PL as u32) > caps.max_program_bytes), "program bytes trips alone");
    std::mem::forget(r);
    std::mem::forget(cmd);
}

macro_rules! validate_exact {
    ($name:ident, $na:literal, $ne:literal, $l:literal, $pl:literal, $cwd:literal, $si:literal) => {
        vm_proof! { reserve_1k, commit_ok;
            #[kani::unwind(6)]
            fn $name() { validate_exact::<$na, $ne, $l, $pl>($cwd, $si) }
        }
    };
}

// ---- 15.c set_env: last write per key wins ----------------------------------------------
fn set_env_last_wins<const N: usize>() {
    let arena = Arena::new(1).unwrap();
    let arena: &'static Arena = unsafe { &*(&arena as *const Arena) };
    let mut cmd = ProcessCommand::new("p", arena);
    let keys = [any_ascii::<1>(), any_ascii::<1>(), any_ascii::<1>()];
    let vals = [any_ascii::<1>(), any_ascii::<1>(), any_ascii::<1>()];
    let mut i = 0;
    while i < N {
        kani::assume(keys[i][0] == b'a' || keys[i][0] == b'b');
        cmd.set_env(mk(&keys[i], arena), mk(&vals[i], arena));
        i += 1;
    }
    // expected: one pair per distinct key, in first-insertion order, value of the last write
    let mut j = 0;
    while j < cmd.env.len() {
        let kj = cmd.env[j].key.as_bytes()[0];
        // last write of this key
        let mut last = N;
        let mut i = 0;
        while i < N {
            if keys[i][0] == kj {
                last = i;
            }
            i += 1;
        }
        assert!(last < N, "set-env: every stored key was written");
        assert!(cmd.env[j].value.as_bytes()[0] == vals[last][0], "set-env: last write per key wins");
        let mut m = j + 1;
        while m < cmd.env.len() {
            assert!(cmd.env[m].key.as_bytes()[0] != kj, "set-env: at most one pair per key");
            m += 1;
        }
        j += 1;
    }
    let mut i = 0;
    while i < N {
        let mut found = false;
        let mut j = 0;
        while j < cmd.env.len() {
            if cmd.env[j].key.as_bytes()[0] == keys[i][0] {
                found = true;
            }
            j += 1;
        }
        assert!(found, "set-env: every written key is present");
        i += 1;
    }
    kani::cover!(N < 2 || cmd.env.len() < N, "an overwrite happened");
    kani::cover!(cmd.env.len() == N.min(2), "distinct keys");
    std::mem::forget(cmd);
}
macro_rules! set_env_last_wins {
    ($name:ident, $n:literal) => {
        vm_proof! { reserve_1k, commit_ok;
            #[kani::unwind(6)]
            fn $name() { set_env_last_wins::<$n>() }
        }
    };
}

// ---- 15.d clone path: a command stored in a variable is what later runs ----------------------
fn clone_equal<const NA: usize, const NE: usize, const L: usize>(si: u8) {
    let arena = Arena::new(1).unwrap();
    let arena: &'static Arena = unsafe { &*(&arena as *const Arena) };
    let pb = any_ascii::<1>();
    let a0 = any_ascii::<L>();
    let a1 = any_ascii::<L>();
    let k0 = any_ascii::<L>();
    let v0 = any_ascii::<L>();
    let cb = any_ascii::<L>();
    let sb = any_ascii::<L>();
    let mut cmd = ProcessCommand::new("", arena);
    cmd.program = mk(&pb, arena);
    if NA >= 1 { cmd.push_arg(mk(&a0, arena)); }
    if NA >= 2 { cmd.push_arg(mk(&a1, arena)); }
    if NE >= 1 { cmd.env.push(EnvPair { key: mk(&k0, arena), value: mk(&v0, arena) }); }
    let cwd_set: bool = kani::any();
    if cwd_set { cmd.set_cwd(mk(&cb, arena)); }
    match si {
        0 => cmd.set_stdin_policy(StdinPolicy::Inherit),
        1 => cmd.set_stdin_policy(StdinPolicy::Null),
        _ => cmd.set_stdin_text(mk(&sb, arena)),
    }
    let (so, se) = (any_output_policy(), any_output_policy());
    cmd.set_stdout_policy(so);
    cmd.set_stderr_policy(se);
    cmd.timeout_ms = kani::any();
    let c = cmd.clone_into(arena);
    assert!(bytes_eq(c.program.as_bytes(), &pb), "clone: program");
    assert!(c.args.len() == NA, "clone: argument count");
    if NA >= 1 { assert!(bytes_eq(c.args[0].as_bytes(), &a0), "clone: argument 0"); }
    if NA >= 2 { assert!(bytes_eq(c.args[1].as_bytes(), &a1), "clone: argument 1"); }
    assert!(c.env.len() == NE, "clone: env count");
    if NE >= 1 { assert!(bytes_eq(c.env[0].key.as_bytes(), &k0) && bytes_eq(c.env[0].value.as_bytes(), &v0), "clone: env pair"); }
    match &c.cwd {
        Some(x) => assert!(cwd_set && bytes_eq(x.as_bytes(), &cb), "clone: cwd"),
        None => assert!(!cwd_set, "clone: cwd"),
    }
    match &c.stdin {
        StdinPolicy::Inherit => assert!(si == 0, "clone: stdin policy"),
        StdinPolicy::Null => assert!(si == 1, "clone: stdin policy"),
        StdinPolicy::Text(t) => assert!(si == 2 && bytes_eq(t.as_bytes(), &sb), "clone: stdin text"),
    }
    assert!(c.stdout == so && c.stderr == se && c.timeout_ms == cmd.timeout_ms, "clone: policies and timeout");
    // independence: the copy owns its bytes
    if NA >= 1 && L > 0 {
        assert!(c.args[0].as_bytes().as_ptr() != a0.as_ptr(), "clone: copy does not alias the original");
    }
    kani::cover!(cwd_set, "cwd set");
    std::mem::forget(c);
    std::mem::forget(cmd);
}
macro_rules! clone_equal {
    ($name:ident, $na:literal, $ne:literal, $l:literal, $si:literal) => {
        vm_proof! { reserve_1k, commit_ok;
            #[kani::stub(crate::arena::string::ArenaString::with_capacity_in, crate::arena::string::ArenaString::verif_with_capacity_in)]
            #[kani::stub(crate::arena::string::ArenaString::push_str, crate::arena::string::ArenaString::verif_push_str)]
            #[kani::unwind(6)]
            fn $name() { clone_equal::<$na, $ne, $l>($si) }
        }
    };
}
