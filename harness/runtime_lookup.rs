// C04 / 4.g harnesses — child module of `runtime`: id-directed environment lookups return the
// innermost live slot carrying the id, never a same-named slot of another activation or caller.
#![allow(dead_code, unused)]
use super::*;

fn rl_reserve(size: usize) -> Result<std::ptr::NonNull<u8>, u32> {
    let sz = if size > 65536 { 960 } else { 512 };
    let layout = std::alloc::Layout::from_size_align(sz, 4096).unwrap();
    let p = unsafe { std::alloc::alloc(layout) };
    std::ptr::NonNull::new(p).ok_or(12)
}

/// which: 0 lookup_local_env (read), 1 lookup_local_mut (in-place mutation), 2 lookup_env by name,
/// 3 lookup_var_mut by name
fn env_lookup<const S: usize>(shape: [usize; S], which: u8) {
    let arena_store = Arena::new(100_000).unwrap();
    let arena: &'static Arena = unsafe { &*(&arena_store as *const Arena) };
    let frame_store = Arena::new(1).unwrap();
    let frame: &'static Arena = unsafe { &*(&frame_store as *const Arena) };
    let mut rt = Runtime::new(arena, Some(frame));
    // environment with a concrete shape; ids symbolic over {none, 0, 1} (equal ids in different
    // scopes = several live activations of one function), names symbolic over {a, b} (same name
    // with another id = a caller's variable of the same name)
    let mut ids = [[9u8; 2]; S];
    let mut names = [[9u8; 2]; S];
    let mut addr = [[0usize; 2]; S];
    let mut env: Vec<Vec<LocalSlot<'static>, &'static Arena>, &'static Arena> = Vec::with_capacity_in(S, arena);
    let mut s = 0;
    while s < S {
        let mut scope: Vec<LocalSlot<'static>, &'static Arena> = Vec::with_capacity_in(2, arena);
        let mut e = 0;
        while e < shape[s] {
            let i: u8 = kani::any();
            kani::assume(i < 3);
            let n: u8 = kani::any();
            kani::assume(n < 2);
            ids[s][e] = i;
            names[s][e] = n;
            scope.push(LocalSlot {
                id: if i == 2 { None } else { Some(LocalId(i as u32)) },
                name: if n == 0 { "a" } else { "b" },
                value: Value::Number((s * 2 + e) as f64),
            });
            addr[s][e] = unsafe { scope.as_ptr().add(e) } as usize;
            e += 1;
        }
        env.push(scope);
        s += 1;
    }
    let old = std::mem::replace(&mut rt.env, env);
    std::mem::forget(old);
    let q: u8 = kani::any();
    kani::assume(q < 2);
    // oracle: innermost scope first, most recent slot first
    let mut want: Option<usize> = None;
    let mut s = S;
    while s > 0 && want.is_none() {
        s -= 1;
        let mut e = shape[s];
        while e > 0 && want.is_none() {
            e -= 1;
            let hit = if which < 2 { ids[s][e] == q } else { names[s][e] == q };
            if hit {
                want = Some(addr[s][e]);
            }
        }
    }
    let off = std::mem::offset_of!(LocalSlot<'static>, value);
    let got: Option<usize> = match which {
        0 => rt.lookup_local_env(LocalId(q as u32)).map(|v| v as *const Value<'static> as usize - off),
        1 => rt.lookup_local_mut(LocalId(q as u32)).map(|v| v as *mut Value<'static> as usize - off),
        2 => rt.lookup_env(if q == 0 { "a" } else { "b" }).map(|v| v as *const Value<'static> as usize - off),
        _ => rt.lookup_var_mut(if q == 0 { "a" } else { "b" }).map(|v| v as *mut Value<'static> as usize - off),
    };
    assert!(got == want, "innermost-slot: the lookup returns the innermost live slot carrying the id (name), or nothing");
    kani::cover!(want.is_some(), "found");
    kani::cover!(want.is_none(), "absent");
    std::mem::forget(rt);
}

macro_rules! env_lookup {
    ($name:ident, $s:literal, $shape:expr, $which:literal) => {
        #[kani::proof]
        #[kani::stub(crate::sys::unix::UnixVirtualMemory::reserve, rl_reserve)]
        #[kani::stub(crate::sys::unix::UnixVirtualMemory::commit, crate::verif_common::commit_ok)]
        #[kani::stub(crate::sys::unix::UnixVirtualMemory::decommit, crate::verif_common::vm_nop)]
        #[kani::stub(crate::sys::unix::UnixVirtualMemory::release, crate::verif_common::vm_nop)]
        #[kani::stub(crate::arena::pool::PoolSet::new, crate::arena::pool::PoolSet::verif_tiny)]
        #[kani::unwind(22)]
        fn $name() { env_lookup::<$s>($shape, $which) }
    };
}
