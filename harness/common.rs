// Environment stubs shared by all harnesses (DESIGN.md 2.3).  Injected at the
// crate root as `crate::verif_common` under cfg(kani) in the scratch copy only.
#![allow(dead_code, unused)]
use std::ptr::NonNull;

macro_rules! reserve_model {
    ($name:ident, $bytes:expr) => {
        /// `reserve(n)` returns a fresh 4096-aligned object of a *model size*
        /// <= n.  Any access beyond it is a CBMC bounds failure, so a too-small
        /// model can only raise an alarm, never hide one.
        pub fn $name(size: usize) -> Result<NonNull<u8>, u32> {
            let sz = if size < $bytes { size } else { $bytes };
            let layout = std::alloc::Layout::from_size_align(sz, 4096).unwrap();
            let p = unsafe { std::alloc::alloc(layout) };
            NonNull::new(p).ok_or(12)
        }
    };
}
reserve_model!(reserve_256, 256);
reserve_model!(reserve_512, 512);
reserve_model!(reserve_1k, 1024);
reserve_model!(reserve_2k, 2048);
reserve_model!(reserve_4k, 4096);
reserve_model!(reserve_8k, 8192);
reserve_model!(reserve_real, usize::MAX);

pub fn commit_ok(_base: NonNull<u8>, _size: usize) -> Result<(), u32> {
    Ok(())
}
/// `commit` may fail (ENOMEM) at any call.
pub fn commit_may_fail(_base: NonNull<u8>, _size: usize) -> Result<(), u32> {
    if kani::any() { Ok(()) } else { Err(12) }
}
pub fn vm_nop(_base: NonNull<u8>, _size: usize) {}

/// memchr-rs contract: index of the first occurrence at or after `offset`, else `len`.
pub fn memchr(needle: u8, haystack: &[u8], offset: usize) -> usize {
    let mut i = if offset < haystack.len() { offset } else { haystack.len() };
    while i < haystack.len() {
        if haystack[i] == needle {
            break;
        }
        i += 1;
    }
    i
}
pub fn memchr2(n1: u8, n2: u8, haystack: &[u8], offset: usize) -> usize {
    let mut i = if offset < haystack.len() { offset } else { haystack.len() };
    while i < haystack.len() {
        if haystack[i] == n1 || haystack[i] == n2 {
            break;
        }
        i += 1;
    }
    i
}

pub fn fmt_write(_out: &mut dyn std::fmt::Write, _args: std::fmt::Arguments<'_>) -> std::fmt::Result {
    Ok(())
}
pub fn fmt_format(_args: std::fmt::Arguments<'_>) -> String {
    String::new()
}

/// Wraps a harness body with `#[kani::proof]` and the four virtual-memory stubs.
macro_rules! vm_proof {
    ($reserve:ident, $commit:ident; $(#[$m:meta])* fn $name:ident() $body:block) => {
        #[kani::proof]
        #[kani::stub(crate::sys::unix::UnixVirtualMemory::reserve, crate::verif_common::$reserve)]
        #[kani::stub(crate::sys::unix::UnixVirtualMemory::commit, crate::verif_common::$commit)]
        #[kani::stub(crate::sys::unix::UnixVirtualMemory::decommit, crate::verif_common::vm_nop)]
        #[kani::stub(crate::sys::unix::UnixVirtualMemory::release, crate::verif_common::vm_nop)]
        $(#[$m])*
        fn $name() $body
    };
}
pub(crate) use vm_proof;
