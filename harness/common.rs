// Environment stubs shared by all harnesses (DESIGN.md 2.3).  Injected at the
// crate root as `crate::verif_common` under cfg(kani) in the scratch copy only.
#![allow(dead_code, unused)]
use std::ptr::NonNull;

macro_rules! reserve_model {
    ($name:ident, $bytes:expr) => {
        /// `reserve(n)` returns a fresh 4096-aligned object of a *model size*
        /// <= n.  Any access beyond it is a CBMC bounds failure, so a too-small
        /// model can only raise an alarm, never hide one.
        pub fn $name(size: usize) -> Result<NonNull<u8>, u32> {
            let sz = if size < $bytes { size } else { $bytes };
            let layout = std::alloc::Layout::from_size_align(sz, 4096).unwrap();
            let p = unsafe { std::alloc::alloc(layout) };
            NonNull::new(p).ok_or(12)
        }
    };
}
reserve_model!(reserve_256, 256);
reserve_model!(reserve_512, 512);
reserve_model!(reserve_960, 960);
reserve_model!(reserve_1k, 1024);
reserve_model!(reserve_2k, 2048);
reserve_model!(reserve_4k, 4096);
reserve_model!(reserve_8k, 8192);
reserve_model!(reserve_real, usize::MAX);

pub fn commit_ok(_base: NonNull<u8>, _size: usize) -> Result<(), u32> {
    Ok(())
}
/// `commit` may fail (ENOMEM) at any call.
pub fn commit_may_fail(_base: NonNull<u8>, _size: usize) -> Result<(), u32> {
    if kani::any() { Ok(()) } else { Err(12) }
}
pub fn vm_nop(_base: NonNull<u8>, _size: usize) {}

/// memchr-rs contract: index of the first occurrence at or after `offset`, else `len`.
pub fn memchr(needle: u8, haystack: &[u8], offset: usize) -> usize {
    let mut i = if offset < haystack.len() { offset } else { haystack.len() };
    while i < haystack.len() {
        if haystack[i] == needle {
            break;
        }
        i += 1;
    }
    i
}
pub fn memchr2(n1: u8, n2: u8, haystack: &[u8], offset: usize) -> usize {
    let mut i = if offset < haystack.len() { offset } else { haystack.len() };
    while i < haystack.len() {
        if haystack[i] == n1 || haystack[i] == n2 {
            break;
        }
        i += 1;
    }
    i
}

pub fn fmt_write(_out: &mut dyn std::fmt::Write, _args: std::fmt::Arguments<'_>) -> std::fmt::Result {
    Ok(())
}
pub fn fmt_format(_args: std::fmt::Arguments<'_>) -> String {
    String::new()
}

/// std's SWAR-optimised character counter, replaced by its definition (non-continuation bytes).
pub fn count_chars(s: &str) -> usize {
    let b = s.as_bytes();
    let mut n = 0;
    let mut i = 0;
    while i < b.len() {
        if (b[i] as i8) >= -0x40 {
            n += 1;
        }
        i += 1;
    }
    n
}

// ---- container model for ArenaString (used where the *callers'* logic is the subject) ----
// Vec growth (reserve -> finish_grow -> Allocator::grow) with symbolic lengths does not fit in a
// SAT instance here; the growth path itself is decided under C11 (grow) and is std's code.
// The model keeps the real representation (a Vec<u8, &Arena> in the real arena) and replaces
// only: capacity is allocated up front (MODEL_CAP), appends are byte loops that assert room.
pub const MODEL_CAP: usize = 32;
impl<'a> crate::arena::ArenaString<'a> {
    pub fn verif_with_capacity_in(_capacity: usize, arena: &'a crate::arena::Arena) -> Self {
        unsafe { crate::arena::ArenaString::from_utf8_unchecked(Vec::with_capacity_in(MODEL_CAP, arena)) }
    }
    pub fn verif_new_in(arena: &'a crate::arena::Arena) -> Self {
        Self::verif_with_capacity_in(0, arena)
    }
    pub fn verif_reserve_exact(&mut self, additional: usize) {
        assert!(self.len() + additional <= MODEL_CAP, "model capacity exceeded");
    }
    pub fn verif_push_str(&mut self, string: &str) {
        let src = string.as_bytes();
        let v = unsafe { self.as_mut_vec() };
        let len = v.len();
        assert!(len + src.len() <= MODEL_CAP, "model capacity exceeded");
        let mut i = 0;
        while i < src.len() {
            unsafe { *v.as_mut_ptr().add(len + i) = src[i] };
            i += 1;
        }
        unsafe { v.set_len(len + src.len()) };
    }
    pub fn verif_push(&mut self, ch: char) {
        let mut buf = [0u8; 4];
        let s = ch.encode_utf8(&mut buf);
        let n = s.len();
        let v = unsafe { self.as_mut_vec() };
        let len = v.len();
        assert!(len + n <= MODEL_CAP, "model capacity exceeded");
        let mut i = 0;
        while i < n {
            unsafe { *v.as_mut_ptr().add(len + i) = buf[i] };
            i += 1;
        }
        unsafe { v.set_len(len + n) };
    }
}

/// Model of `Vec::extend_from_slice` for the container cut above: appends by raw writes into
/// existing capacity (asserting there is room) instead of going through reserve/grow.
pub fn vec_extend_from_slice<T: Clone, A: std::alloc::Allocator>(v: &mut Vec<T, A>, other: &[T]) {
    let len = v.len();
    assert!(len + other.len() <= v.capacity(), "model capacity exceeded");
    let mut i = 0;
    while i < other.len() {
        unsafe { std::ptr::write(v.as_mut_ptr().add(len + i), other[i].clone()) };
        i += 1;
    }
    unsafe { v.set_len(len + other.len()) };
}

/// Wraps a harness body with `#[kani::proof]` and the four virtual-memory stubs.
macro_rules! vm_proof {
    ($reserve:ident, $commit:ident; $(#[$m:meta])* fn $name:ident() $body:block) => {
        #[kani::proof]
        #[kani::stub(crate::sys::unix::UnixVirtualMemory::reserve, crate::verif_common::$reserve)]
        #[kani::stub(crate::sys::unix::UnixVirtualMemory::commit, crate::verif_common::$commit)]
        #[kani::stub(crate::sys::unix::UnixVirtualMemory::decommit, crate::verif_common::vm_nop)]
        #[kani::stub(crate::sys::unix::UnixVirtualMemory::release, crate::verif_common::vm_nop)]
        $(#[$m])*
        fn $name() $body
    };
}
pub(crate) use vm_proof;
