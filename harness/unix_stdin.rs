// C17 harnesses — child module of `sys::unix`: the line-assembly kernel `read_line_from`
// over a mock BufRead that delivers the input in an arbitrary chunking.
#![allow(dead_code, unused)]
use super::*;
use std::io::{BufRead, Read};

/// BufRead model of a buffered stdin: the input arrives from the OS in the chunks of a
/// schedule (a composition of N); `fill_buf` returns the unread part of the chunk that is
/// currently buffered (performing the next "read" when it is exhausted); `consume` advances.
struct ChunkedInput<const N: usize, const K: usize> {
    data: [u8; N],
    pos: usize,
    chunk_end: usize,
    next_chunk: usize,
    sched: [usize; K],
    fills: usize,
}

impl<const N: usize, const K: usize> Read for ChunkedInput<N, K> {
    fn read(&mut self, _buf: &mut [u8]) -> io::Result<usize> {
        unreachable!("read_line_from must go through the buffer")
    }
}

impl<const N: usize, const K: usize> BufRead for ChunkedInput<N, K> {
    fn fill_buf(&mut self) -> io::Result<&[u8]> {
        self.fills += 1;
        if self.pos == self.chunk_end && self.next_chunk < K {
            self.chunk_end += self.sched[self.next_chunk];
            self.next_chunk += 1;
        }
        Ok(&self.data[self.pos..self.chunk_end])
    }
    fn consume(&mut self, amt: usize) {
        assert!(amt <= self.chunk_end - self.pos, "bufread-contract: consume more than fill_buf returned");
        self.pos += amt;
    }
}

/// Reference: the k-th line of `data` (terminator excluded), as (start, end).
fn line_bounds<const N: usize>(data: &[u8; N], from: usize) -> (usize, usize, usize) {
    let mut e = from;
    while e < N && data[e] != b'\n' {
        e += 1;
    }
    let next = if e < N { e + 1 } else { N };
    (from, e, next)
}

fn check_line<const N: usize>(got: &ArenaString<'_>, data: &[u8; N], s: usize, e: usize) {
    let gb = got.as_bytes();
    assert!(gb.len() == e - s, "line-length: line is the text up to the next newline");
    let mut i = 0;
    while i < e - s {
        assert!(gb[i] == data[s + i], "line-bytes: line content");
        i += 1;
    }
}

fn valid_utf8_2<const N: usize>(t: &[u8; N]) -> bool {
    let mut i = 0;
    while i < N {
        if t[i] < 0x80 {
            i += 1;
        } else if t[i] >= 0xC2 && t[i] <= 0xDF && i + 1 < N && t[i + 1] >= 0x80 && t[i + 1] <= 0xBF {
            i += 2;
        } else {
            return false;
        }
    }
    true
}

fn successive_lines<const N: usize, const K: usize>(sched: [usize; K], calls: usize, any_byte: bool) {
    let arena = Arena::new(1).unwrap();
    let arena: &'static Arena = unsafe { &*(&arena as *const Arena) };
    let mut data = [0u8; N];
    let mut i = 0;
    while i < N {
        let b: u8 = kani::any();
        if !any_byte {
            kani::assume(b == b'\n' || b == b'x' || b == b'y');
        }
        data[i] = b;
        i += 1;
    }
    if any_byte {
        // any text: ASCII and 2-byte characters (which a chunk boundary may split)
        kani::assume(valid_utf8_2(&data));
    }
    let mut input = ChunkedInput::<N, K> { data, pos: 0, chunk_end: 0, next_chunk: 0, sched, fills: 0 };
    let mut from = 0;
    let mut c = 0;
    let mut nonempty = 0;
    while c < calls {
        let (s, e, next) = line_bounds(&data, from);
        let got = read_line_from(&mut input, arena).unwrap();
        check_line(&got, &data, s, e);
        assert!(input.pos == next, "no-loss: exactly the line and its terminator are consumed");
        if e > s {
            nonempty += 1;
        }
        from = next;
        std::mem::forget(got);
        c += 1;
    }
    kani::cover!(nonempty >= 2 || N < 3 || any_byte, "two non-empty lines delivered");
    kani::cover!(!any_byte || N < 2 || data[0] >= 0x80, "a multi-byte character in the input");
    kani::cover!(from == N, "input exhausted");
}

macro_rules! successive_lines {
    ($name:ident, $n:literal, $k:literal, $sched:expr, $calls:literal, $any:literal, $unw:literal) => {
        #[kani::proof]
        #[kani::stub(crate::sys::unix::UnixVirtualMemory::reserve, crate::verif_common::reserve_512)]
        #[kani::stub(crate::arena::string::ArenaString::with_capacity_in, crate::arena::string::ArenaString::verif_with_capacity_in)]
        #[kani::stub(std::vec::Vec::extend_from_slice, crate::verif_common::vec_extend_from_slice)]
        #[kani::stub(crate::arena::string::ArenaString::new_in, crate::arena::string::ArenaString::verif_new_in)]
        #[kani::stub(crate::arena::string::ArenaString::push_str, crate::arena::string::ArenaString::verif_push_str)]
        #[kani::stub(crate::sys::unix::UnixVirtualMemory::commit, crate::verif_common::commit_ok)]
        #[kani::stub(crate::sys::unix::UnixVirtualMemory::decommit, crate::verif_common::vm_nop)]
        #[kani::stub(crate::sys::unix::UnixVirtualMemory::release, crate::verif_common::vm_nop)]
        #[kani::stub(memchr_rs::memchr::memchr, crate::verif_common::memchr)]
        #[kani::unwind($unw)]
        fn $name() {
            successive_lines::<$n, $k>($sched, $calls, $any)
        }
    };
}
