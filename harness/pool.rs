// C12 harnesses — child module of `arena::pool` (sees private items).
#![allow(dead_code, unused)]
use super::*;
use crate::verif_common::vm_proof;
use std::ptr::NonNull;

/// Arbitrary pool state satisfying the representation invariant I12:
/// bump <= N; free.len <= bump; free entries pairwise distinct and < bump;
/// live == bump - free.len; (debug) free slots carry the 0xDD poison.
fn any_pool<const N: usize>(slots: *mut u8, indices: *mut u32, slot_size: u32) -> (Pool, [bool; N]) {
    // The pool is laid over harness-owned buffers (what Pool::new obtains from the
    // arena; Pool::new itself is exercised by the *_new_smoke harnesses), so the
    // step proofs need no arena and no virtual-memory stubs.
    let pool = Pool {
        block: SlotBlock {
            base: NonNull::new(slots).unwrap(),
            slot_size,
            slot_count: N as u32,
            bump: Cell::new(0),
        },
        free: FreeList { indices: NonNull::new(indices).unwrap(), capacity: N as u32, len: Cell::new(0) },
        live_count: Cell::new(0),
    };
    let bump: u32 = kani::any();
    kani::assume(bump <= N as u32);
    let flen: u32 = kani::any();
    kani::assume(flen <= bump);
    let mut is_free = [false; N];
    let mut k = 0;
    while k < flen {
        let idx: u32 = kani::any();
        kani::assume(idx < bump && !is_free[idx as usize]);
        is_free[idx as usize] = true;
        unsafe { pool.free.indices.as_ptr().add(k as usize).write(idx) };
        if cfg!(debug_assertions) {
            unsafe { pool.block.slot_ptr(idx).as_ptr().write_bytes(0xDD, slot_size as usize) };
        }
        k += 1;
    }
    pool.free.len.set(flen);
    pool.block.bump.set(bump);
    pool.live_count.set(bump - flen);
    (pool, is_free)
}

/// I12 read back from the real pool's memory.
fn inv_holds<const N: usize>(pool: &Pool) -> bool {
    let bump = pool.block.bump.get();
    let flen = pool.free.len();
    if bump > N as u32 || flen > bump {
        return false;
    }
    if pool.live_count.get() != bump - flen {
        return false;
    }
    let mut seen = [false; N];
    let mut k = 0;
    while k < flen {
        let idx = unsafe { pool.free.indices.as_ptr().add(k as usize).read() };
        if idx >= bump || seen[idx as usize] {
            return false;
        }
        seen[idx as usize] = true;
        k += 1;
    }
    true
}

fn alloc_step<const N: usize>(slot_size: u32) {
    let mut slots = [0u64; 16]; // N * slot_size <= 128 bytes, 8-aligned
    let mut indices = [0u32; N];
    assert!(N * slot_size as usize <= 128);
    let (pool, is_free) = any_pool::<N>(slots.as_mut_ptr().cast(), indices.as_mut_ptr(), slot_size);
    let bump0 = pool.block.bump.get();
    let flen0 = pool.free.len();
    let live0 = pool.live_count.get();
    match pool.alloc() {
        Some(p) => {
            assert!(p.len() == slot_size as usize, "size: buffer is exactly one slot");
            let idx = pool.block.index_of(p.cast::<u8>().as_ptr());
            assert!(idx.is_some(), "in-block: returned pointer is a slot of this pool");
            let idx = idx.unwrap();
            assert!(idx < N as u32, "in-block: slot index below capacity");
            assert!(
                (p.cast::<u8>().as_ptr() as usize) % 8 == 0,
                "aligned: slot is 8-byte aligned"
            );
            // exclusive ownership: the slot was not live before (free or virgin)
            assert!(idx >= bump0 || is_free[idx as usize], "exclusive: slot handed out while live");
            assert!(pool.live_count.get() == live0 + 1, "conservation: live incremented");
            assert!(
                pool.live_count.get() + pool.free.len() + (N as u32 - pool.block.bump.get())
                    == N as u32,
                "conservation: live+free+virgin == capacity"
            );
            // the slot left the free set / virgin range
            assert!(
                (idx < bump0 && pool.free.len() == flen0 - 1 && pool.block.bump.get() == bump0)
                    || (idx == bump0 && pool.free.len() == flen0 && pool.block.bump.get() == bump0 + 1),
                "conservation: exactly one slot moved to live"
            );
            assert!(inv_holds::<N>(&pool), "invariant: I12 after alloc");
        }
        None => {
            assert!(bump0 == N as u32 && flen0 == 0, "exhaustion: None only when nothing is free or virgin");
            assert!(
                pool.live_count.get() == live0
                    && pool.free.len() == flen0
                    && pool.block.bump.get() == bump0,
                "exhaustion: state unchanged"
            );
        }
    }
    kani::cover!(bump0 == N as u32 && flen0 == 0, "exhausted pool reachable");
    kani::cover!(flen0 > 0, "reuse of a freed slot reachable");
    kani::cover!(flen0 == 0 && bump0 < N as u32, "virgin slot reachable");
}

fn dealloc_step<const N: usize>(slot_size: u32) {
    let mut slots = [0u64; 16];
    let mut indices = [0u32; N];
    assert!(N * slot_size as usize <= 128);
    let (pool, is_free) = any_pool::<N>(slots.as_mut_ptr().cast(), indices.as_mut_ptr(), slot_size);
    let bump0 = pool.block.bump.get();
    let flen0 = pool.free.len();
    let live0 = pool.live_count.get();
    let idx: u32 = kani::any();
    kani::assume(idx < bump0 && !is_free[idx as usize]); // a live slot
    let p = pool.block.slot_ptr(idx);
    unsafe { pool.dealloc(p) };
    assert!(pool.free.len() == flen0 + 1, "conservation: free incremented");
    assert!(pool.live_count.get() == live0 - 1, "conservation: live decremented");
    assert!(pool.block.bump.get() == bump0, "conservation: virgin range untouched");
    assert!(
        pool.live_count.get() + pool.free.len() + (N as u32 - pool.block.bump.get()) == N as u32,
        "conservation: live+free+virgin == capacity"
    );
    assert!(inv_holds::<N>(&pool), "invariant: I12 after dealloc");
    // the freed slot is on the free list (so it can come back) ...
    let top = unsafe { pool.free.indices.as_ptr().add(flen0 as usize).read() };
    assert!(top == idx, "recycle: freed slot is on the free list");
    // ... and comes back only through a later alloc: the very next one (LIFO).
    let q = pool.alloc();
    assert!(q.is_some(), "recycle: alloc after dealloc succeeds");
    assert!(q.unwrap().cast::<u8>() == p, "recycle: next alloc returns the freed slot");
    kani::cover!(flen0 > 0, "dealloc with non-empty free list");
    kani::cover!(bump0 == N as u32, "dealloc in a fully bumped pool");
}

fn new_smoke<const N: usize>(slot_size: u32) {
    let arena = Arena::new(1).unwrap();
    let off0 = arena.offset();
    // (the base is recovered through a zero-size allocation; in the debug profile that allocation
    // poisons another 128 bytes, which made the instance run out of memory, so the layout clauses
    // are decided in the R-profile instance only)
    let abase = if cfg!(debug_assertions) { 0 } else { arena_base(&arena) };
    let pool = Pool::new(&arena, slot_size, N as u32);
    assert!(inv_holds::<N>(&pool), "invariant: I12 holds initially");
    if !cfg!(debug_assertions) {
        // layout: the slot block and the free list are two disjoint regions of the arena, each large
        // enough for N slots resp. N indices, both inside what the arena handed out for this pool
        let (b, f) = (pool.block.base.as_ptr() as usize, pool.free.indices.as_ptr() as usize);
        let (bl, fl) = (N * slot_size as usize, N * std::mem::size_of::<u32>());
        assert!(b + bl <= f || f + fl <= b, "layout: slot block and free list do not overlap");
        assert!(b >= abase + off0 && b + bl <= abase + arena.offset(), "layout: slot block inside the pool's own arena allocation");
        assert!(f >= abase + off0 && f + fl <= abase + arena.offset(), "layout: free list (capacity x 4 bytes) inside the pool's own arena allocation");
        assert!(b % 8 == 0 && f % 4 == 0, "layout: regions aligned");
    }
    let a = pool.alloc().unwrap();
    let b = pool.alloc().unwrap();
    let (a, b) = (a.cast::<u8>().as_ptr() as usize, b.cast::<u8>().as_ptr() as usize);
    assert!(a + slot_size as usize <= b || b + slot_size as usize <= a, "exclusive: two live slots overlap");
    assert!(inv_holds::<N>(&pool), "invariant: I12 after two allocs");
    kani::cover!(true, "smoke reached");
    std::mem::forget(arena);
}

macro_rules! pool_step {
    ($name:ident, $f:ident, $n:literal, $ssz:literal, $unw:literal, $res:ident) => {
        vm_proof! { $res, commit_ok;
            #[kani::unwind($unw)]
            fn $name() { $f::<$n>($ssz) }
        }
    };
}

// ---- 12.c size_class over all u32 --------------------------------------
#[kani::proof]
#[kani::unwind(22)]
fn size_class_total() {
    let n: u32 = kani::any();
    match size_class(n) {
        Some(c) => {
            assert!(c < CLASS_COUNT, "class-range: class index below CLASS_COUNT");
            assert!(SLOT_SIZES[c as usize] >= n, "fits: slot at least as large as request");
            assert!(c == 0 || SLOT_SIZES[(c - 1) as usize] < n, "smallest: no smaller class fits");
            assert!(n <= 256, "limit: only requests <= 256 are pooled");
        }
        None => assert!(n > 256, "limit: None only above 256"),
    }
    kani::cover!(n == 0, "zero");
    kani::cover!(n == 129, "first wide class");
    kani::cover!(n == 257, "first unpooled");
}

#[kani::proof]
#[kani::unwind(22)]
fn size_tables() {
    let mut i = 0usize;
    while i < CLASS_COUNT as usize {
        assert!(SLOT_SIZES[i] % 8 == 0 && SLOT_SIZES[i] > 0, "tables: slot sizes are positive multiples of 8");
        assert!(SLOT_COUNTS[i] > 0, "tables: slot counts positive");
        assert!(i == 0 || SLOT_SIZES[i - 1] < SLOT_SIZES[i], "tables: strictly increasing");
        i += 1;
    }
    assert!(SLOT_SIZES[CLASS_COUNT as usize - 1] == 256, "tables: largest class is 256");
    kani::cover!(true, "tables reached");
}

// ---- 12.d PoolSet -----------------------------------------------------
impl<'a> PoolSet<'a> {
    /// Same 20 classes and slot sizes as production, `$n` slots per class.
    pub(crate) fn verif_small(arena: &'a Arena) -> Self {
        macro_rules! p {
            ($i:expr) => {
                Pool::new(arena, SLOT_SIZES[$i], 1)
            };
        }
        let pools = [
            p!(0), p!(1), p!(2), p!(3), p!(4), p!(5), p!(6), p!(7), p!(8), p!(9), p!(10), p!(11),
            p!(12), p!(13), p!(14), p!(15), p!(16), p!(17), p!(18), p!(19),
        ];
        Self { pools, arena }
    }
}

/// Address of the arena's base, recovered through the public API (a zero-size
/// allocation sits at base + offset and does not move the offset).
fn arena_base(arena: &Arena) -> usize {
    let off = arena.offset();
    let p = arena.allocate(Layout::from_size_align(0, 1).unwrap()).unwrap();
    assert!(arena.offset() == off);
    p.cast::<u8>().as_ptr() as usize - off
}

impl<'a> PoolSet<'a> {
    /// For harnesses whose strings are at most 16 bytes: the two smallest classes have two slots,
    /// every other class is exhausted from the start (its requests fall back to the arena exactly
    /// as in production).  Keeps the persistent model arena below 1000 bytes.
    pub(crate) fn verif_tiny(arena: &'a Arena) -> Self {
        macro_rules! p {
            ($i:expr) => {
                Pool::new(arena, SLOT_SIZES[$i], if $i < 2 { 2 } else { 0 })
            };
        }
        let pools = [
            p!(0), p!(1), p!(2), p!(3), p!(4), p!(5), p!(6), p!(7), p!(8), p!(9), p!(10), p!(11),
            p!(12), p!(13), p!(14), p!(15), p!(16), p!(17), p!(18), p!(19),
        ];
        Self { pools, arena }
    }
}

/// A PoolSet whose two smallest classes (8- and 16-byte slots, two slots each) are laid over
/// small harness-owned stack buffers and whose other classes are exhausted.  Small stack arrays
/// are tracked field-sensitively by the symbolic executor, so free-list indices stay constants
/// (a free list in arena memory makes every recycled slot address symbolic).
impl<'a> PoolSet<'a> {
    /// Straight-line equivalent of `contains` for pool sets whose classes 2..19 are empty
    /// (verif_over / verif_tiny): lets harnesses that are not about the ownership test run with a
    /// small unwind bound.  `contains` itself is decided for any address under C12 (12.d).
    pub(crate) fn verif_contains2(&self, ptr: *const u8) -> bool {
        self.pools[0].contains(ptr) || self.pools[1].contains(ptr)
    }
}

#[repr(align(8))]
pub(crate) struct StaticSlots(pub [u8; 128]);
pub(crate) static mut VERIF_SLOTS0: StaticSlots = StaticSlots([0; 128]);
pub(crate) static mut VERIF_SLOTS1: StaticSlots = StaticSlots([0; 128]);
pub(crate) static mut VERIF_IDX0: [u32; 2] = [0; 2];
pub(crate) static mut VERIF_IDX1: [u32; 2] = [0; 2];

impl<'a> PoolSet<'a> {
    /// Stub for `PoolSet::new` inside `Runtime::new`: the stack-buffer pool set of `verif_over`, over
    /// static buffers (the stub has no caller frame to put them in).
    pub(crate) fn verif_static(arena: &'a Arena) -> Self {
        #[allow(static_mut_refs)]
        let ps = unsafe {
            PoolSet::verif_over(
                std::mem::transmute::<&'a Arena, &'static Arena>(arena),
                VERIF_SLOTS0.0.as_mut_ptr(), VERIF_IDX0.as_mut_ptr(), VERIF_SLOTS1.0.as_mut_ptr(), VERIF_IDX1.as_mut_ptr(),
            )
        };
        unsafe { std::mem::transmute::<PoolSet<'static>, PoolSet<'a>>(ps) }
    }
    pub(crate) fn verif_slot0_base() -> *const u8 {
        #[allow(static_mut_refs)]
        unsafe { VERIF_SLOTS0.0.as_ptr() }
    }
}

impl PoolSet<'static> {
pub(crate) fn verif_over(arena: &'static Arena, s0: *mut u8, i0: *mut u32, s1: *mut u8, i1: *mut u32) -> PoolSet<'static> {
    let mk = |slots: *mut u8, idx: *mut u32, size: u32, count: u32| Pool {
        block: SlotBlock { base: NonNull::new(slots).unwrap(), slot_size: size, slot_count: count, bump: Cell::new(0) },
        free: FreeList { indices: NonNull::new(idx).unwrap(), capacity: count, len: Cell::new(0) },
        live_count: Cell::new(0),
    };
    macro_rules! empty {
        ($i:expr) => {
            Pool {
                block: SlotBlock { base: NonNull::dangling(), slot_size: SLOT_SIZES[$i], slot_count: 0, bump: Cell::new(0) },
                free: FreeList { indices: NonNull::dangling(), capacity: 0, len: Cell::new(0) },
                live_count: Cell::new(0),
            }
        };
    }
    let pools = [
        mk(s0, i0, SLOT_SIZES[0], 2), mk(s1, i1, SLOT_SIZES[1], 2),
        empty!(2), empty!(3), empty!(4), empty!(5), empty!(6), empty!(7), empty!(8), empty!(9), empty!(10), empty!(11),
        empty!(12), empty!(13), empty!(14), empty!(15), empty!(16), empty!(17), empty!(18), empty!(19),
    ];
    PoolSet { pools, arena }
}
}

fn pool_state(ps: &PoolSet<'_>, c: usize) -> (u32, u32, u32) {
    (ps.pools[c].block.bump.get(), ps.pools[c].free.len(), ps.pools[c].live_count.get())
}

/// One request size: alloc, exhaust (1 slot per class), fall back, release paths.
fn poolset_dispatch(size: u32, expect_class: Option<u32>) {
    let arena = Arena::new(1).unwrap();
    let ps = PoolSet::verif_small(&arena);
    let pools_end = arena.offset();
    let base = arena_base(&arena);
    let p = ps.alloc(size);
    assert!(p.len() >= size as usize, "size: buffer at least as large as requested");
    let pa = p.cast::<u8>().as_ptr();
    match expect_class {
        Some(c) => {
            let c = c as usize;
            assert!(ps.contains(pa), "ownership: pooled buffer is owned by the pool");
            assert!(ps.pools[c].block.index_of(pa) == Some(0), "class: served from the smallest fitting class");
            assert!(p.len() == SLOT_SIZES[c] as usize, "class: buffer is one slot of that class");
            assert!(pool_state(&ps, c) == (1, 0, 1), "conservation: one live slot");
            // class exhausted (1 slot): falls back to fresh arena memory
            let off1 = arena.offset();
            let q = ps.alloc(size);
            let qa = q.cast::<u8>().as_ptr();
            assert!(q.len() >= size as usize, "size: fallback buffer large enough");
            assert!(!ps.contains(qa), "ownership: fallback memory is not pool-owned");
            assert!(qa as usize >= base + pools_end, "fallback: fresh arena memory above the pools");
            assert!(qa as usize >= base + off1 || size == 0, "fallback: not previously handed out");
            let st = pool_state(&ps, c);
            // releasing the fallback buffer is a no-op: never recycled
            unsafe { ps.dealloc(q.cast(), size) };
            assert!(pool_state(&ps, c) == st, "fallback: release of arena memory is a no-op");
            // releasing with a size of a different class is a no-op (class-checked)
            let other: u32 = if c == 0 { 200 } else { 1 };
            unsafe { ps.dealloc(p.cast(), other) };
            assert!(pool_state(&ps, c) == st, "class: release with a foreign class size is a no-op");
            let oc = size_class(other).unwrap() as usize;
            assert!(pool_state(&ps, oc) == (0, 0, 0), "class: foreign class untouched");
            // releasing with the right size returns the slot to its class
            unsafe { ps.dealloc(p.cast(), size) };
            assert!(pool_state(&ps, c) == (1, 1, 0), "class: slot returned to the class it came from");
            // and the refill hands it out again
            let r = ps.alloc(size);
            assert!(r.cast::<u8>().as_ptr() == pa, "refill: freed slot is reused");
        }
        None => {
            assert!(!ps.contains(pa), "ownership: oversized buffer is not pool-owned");
            assert!(pa as usize >= base + pools_end, "fallback: fresh arena memory above the pools");
            let mut c = 0;
            while c < CLASS_COUNT as usize {
                assert!(pool_state(&ps, c) == (0, 0, 0), "fallback: no class touched");
                c += 1;
            }
            unsafe { ps.dealloc(p.cast(), size) };
            let q = ps.alloc(size);
            assert!(
                q.cast::<u8>().as_ptr() as usize >= pa as usize + size as usize,
                "fallback: oversized memory is never recycled"
            );
        }
    }
    kani::cover!(true, "dispatch reached");
    std::mem::forget(arena);
}

macro_rules! poolset_dispatch {
    ($name:ident, $size:literal, $class:expr) => {
        vm_proof! { reserve_4k, commit_ok;
            #[kani::unwind(22)]
            fn $name() { poolset_dispatch($size, $class) }
        }
    };
}

/// `contains(q)` is true exactly for addresses inside a slot block.
fn poolset_contains() {
    let arena = Arena::new(1).unwrap();
    let before = arena.offset();
    let ps = PoolSet::verif_small(&arena);
    let after = arena.offset();
    let base = arena_base(&arena);
    let off: usize = kani::any();
    kani::assume(off < 4096);
    let q = (base + off) as *const u8;
    // reference: the slot blocks as laid out by Pool::new (block then free list, per class)
    let mut expect = false;
    let mut c = 0;
    while c < CLASS_COUNT as usize {
        let b = ps.pools[c].block.base.as_ptr() as usize;
        let len = SLOT_SIZES[c] as usize; // 1 slot per class
        if base + off >= b && base + off < b + len {
            expect = true;
        }
        c += 1;
    }
    assert!(ps.contains(q) == expect, "ownership: contains() true exactly inside slot blocks");
    kani::cover!(expect, "inside a block");
    kani::cover!(!expect && off >= before && off < after, "free-list memory between blocks");
    kani::cover!(off >= after, "above the pools");
    std::mem::forget(arena);
}

vm_proof! { reserve_4k, commit_ok;
    #[kani::unwind(22)]
    fn poolset_contains_any_addr() { poolset_contains() }
}

/// alloc_str copies exactly the bytes.
fn alloc_str_copy<const L: usize>() {
    let arena = Arena::new(1).unwrap();
    let ps = PoolSet::verif_small(&arena);
    let mut bytes = [0u8; L];
    let mut i = 0;
    while i < L {
        let b: u8 = kani::any();
        kani::assume(b < 0x80);
        bytes[i] = b;
        i += 1;
    }
    let s = unsafe { std::str::from_utf8_unchecked(&bytes) };
    let out = ps.alloc_str(s);
    assert!(out.len() == L, "copy: length preserved");
    let ob = out.as_bytes();
    let mut i = 0;
    while i < L {
        assert!(ob[i] == bytes[i], "copy: bytes preserved");
        i += 1;
    }
    assert!(L > 256 || ps.contains(ob.as_ptr()), "ownership: small string is pooled");
    kani::cover!(true, "alloc_str reached");
    std::mem::forget(out);
    std::mem::forget(arena);
}

macro_rules! alloc_str_copy {
    ($name:ident, $len:literal) => {
        vm_proof! { reserve_4k, commit_ok;
            #[kani::unwind(22)]
            fn $name() { alloc_str_copy::<$len>() }
        }
    };
}
