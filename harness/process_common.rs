// C16 harnesses — child module of `sys::process_common`: the sequential capture kernel.
#![allow(dead_code, unused)]
use super::*;

/// A reader that delivers `total` bytes of a symbolic payload in a concrete chunk schedule.
struct ChunkedReader<const N: usize, const K: usize> {
    data: [u8; N],
    cur: usize,
    call: usize,
    sched: [usize; K],
}

impl<const N: usize, const K: usize> Read for ChunkedReader<N, K> {
    fn read(&mut self, buf: &mut [u8]) -> io::Result<usize> {
        let remaining = N - self.cur;
        if remaining == 0 || self.call >= K {
            return Ok(0);
        }
        let mut n = self.sched[self.call];
        self.call += 1;
        if n > remaining {
            n = remaining;
        }
        assert!(n <= buf.len());
        let mut i = 0;
        while i < n {
            buf[i] = self.data[self.cur + i];
            i += 1;
        }
        self.cur += n;
        Ok(n)
    }
}

fn capture_kernel<const N: usize, const K: usize>(cap: u32, sched: [usize; K], code: u8) {
    let mut data = [0u8; N];
    let mut i = 0;
    while i < N {
        data[i] = kani::any();
        i += 1;
    }
    let r = ChunkedReader::<N, K> { data, cur: 0, call: 0, sched };
    // another stream may already have recorded an overflow
    let prior: u8 = kani::any();
    kani::assume(prior <= 2);
    let flag = Arc::new(AtomicU8::new(prior));
    let out = read_captured_stream(r, cap, code, &flag).unwrap();
    let after = flag.load(Ordering::SeqCst);
    if N <= cap as usize {
        // fits (the boundary total == cap is not an overflow): complete data, flag untouched
        assert!(out.len() == N, "complete: every byte the child wrote is captured");
        let mut i = 0;
        while i < N {
            assert!(out[i] == data[i], "complete: captured bytes equal the payload");
            i += 1;
        }
        assert!(after == prior, "no-false-overflow: flag untouched when the output fits");
    } else {
        // does not fit: a shortened buffer must never coexist with a clear flag
        assert!(after != 0, "no-silent-truncation: overflow recorded when the output exceeds the limit");
        assert!(prior != 0 || after == code, "overflow-code: the flag names this stream");
        assert!(prior == 0 || after == prior, "overflow-code: an earlier overflow is not overwritten");
        assert!(out.len() <= cap as usize, "bounded: never buffers more than the limit");
    }
    kani::cover!(prior == 0, "first overflow candidate");
    kani::cover!(prior != 0 && prior != code, "other stream overflowed earlier");
    std::mem::forget(out);
}

macro_rules! capture_kernel {
    ($name:ident, $n:literal, $k:literal, $cap:literal, $sched:expr, $code:literal, $unw:literal) => {
        #[kani::proof]
        #[kani::unwind($unw)]
        fn $name() {
            capture_kernel::<$n, $k>($cap, $sched, $code)
        }
    };
}

#[kani::proof]
fn stream_codes() {
    let (o, e) = (stream_code(ProcessStream::Stdout), stream_code(ProcessStream::Stderr));
    assert!(o != 0 && e != 0 && o != e, "codes: non-zero and distinct");
    assert!(stream_from_code(o) == ProcessStream::Stdout, "codes: stdout round trip");
    assert!(stream_from_code(e) == ProcessStream::Stderr, "codes: stderr round trip");
    // the codes the reader threads are started with are the codes join_capture compares against
    assert!(o == 1 && e == 2, "codes: reader threads use 1 for stdout and 2 for stderr");
    kani::cover!(true, "codes reached");
}
