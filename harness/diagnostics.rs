// C07 / 7.f harnesses — child module of `diagnostics`: the renderer is total for every
// diagnostic whose spans satisfy the scanner's guarantee (inside the text, ordered, on boundaries).
#![allow(dead_code, unused)]
use super::*;

fn valid_text<const N: usize>(t: &[u8; N]) -> bool {
    let mut i = 0;
    while i < N {
        if t[i] < 0x80 {
            i += 1;
        } else if t[i] >= 0xC2 && t[i] <= 0xDF && i + 1 < N && t[i + 1] >= 0x80 && t[i + 1] <= 0xBF {
            i += 2;
        } else if t[i] >= 0xE0 && t[i] <= 0xEF && i + 2 < N
            && t[i + 1] >= (if t[i] == 0xE0 { 0xA0 } else { 0x80 })
            && t[i + 1] <= (if t[i] == 0xED { 0x9F } else { 0xBF })
            && t[i + 2] >= 0x80 && t[i + 2] <= 0xBF
        {
            // 3-byte sequences (no overlong forms, no surrogates)
            i += 3;
        } else {
            return false;
        }
    }
    true
}
fn boundary<const N: usize>(t: &[u8; N], i: usize) -> bool {
    i == N || (i < N && (t[i] & 0xC0) != 0x80)
}
fn any_span<const N: usize>(t: &[u8; N]) -> Span {
    let (s, e): (usize, usize) = (kani::any(), kani::any());
    kani::assume(s <= e && e <= N && boundary(t, s) && boundary(t, e));
    Range::from(s..e)
}

// Formatting-only routines are replaced by contract stubs that check what the renderer hands
// them (columns and counts are at least 1: `0..(col - 1)` must not underflow) and build nothing.
impl<'arena> Diagnostics<'arena> {
    fn verif_render_caret_line(&self, col: usize, len: usize, _color: &str, _g: &str) -> ArenaString<'arena> {
        assert!(col >= 1, "render-args: caret column is at least 1");
        assert!(len >= 1, "render-args: at least one caret");
        ArenaString::new_in(self.arena)
    }
    fn verif_render_label_line(&self, lbl_col: usize, dash_count: usize, _color: &str, _m: &str, _g: &str) -> ArenaString<'arena> {
        assert!(lbl_col >= 1, "render-args: label column is at least 1");
        assert!(dash_count >= 1, "render-args: at least one dash");
        ArenaString::new_in(self.arena)
    }
    fn verif_render_header(&self, _s: Severity, _c: &str, _m: &str) -> ArenaString<'arena> {
        ArenaString::new_in(self.arena)
    }
    fn verif_render_location(&self, _f: &str, line: usize, col: usize, _c: &str) -> ArenaString<'arena> {
        assert!(line >= 1 && col >= 1, "render-args: line and column are 1-based");
        ArenaString::new_in(self.arena)
    }
    fn verif_render_gutter(&self, line: usize, _c: &str, _w: usize) -> ArenaString<'arena> {
        assert!(line >= 1, "render-args: line is 1-based");
        ArenaString::new_in(self.arena)
    }
    fn verif_render_plain_gutter(&self, _c: &str, _w: usize) -> ArenaString<'arena> {
        ArenaString::new_in(self.arena)
    }
}
impl<'arena> Diagnostics<'arena> {
    fn verif_expand_tabs(&self, _text: &str) -> ArenaString<'arena> {
        ArenaString::new_in(self.arena)
    }
    fn verif_visual_col(text: &str) -> usize {
        // the real one counts characters (tabs widened): anything from 0 to 4 * len
        let v: usize = kani::any();
        kani::assume(v <= 4 * text.len() && (text.is_empty() == (v == 0)));
        v
    }
}
fn write_nop(_severity: Severity, _s: &str, _buf: Option<&mut ArenaString<'_>>) {}

fn render_total<const N: usize>(labels: usize) {
    let arena = Arena::new(1).unwrap();
    let arena: &'static Arena = unsafe { &*(&arena as *const Arena) };
    let mut t = [0u8; N];
    let mut i = 0;
    while i < N {
        t[i] = kani::any();
        i += 1;
    }
    kani::assume(valid_text(&t));
    let src = unsafe { std::str::from_utf8_unchecked(&t) };
    let d = Diagnostics::new(arena);
    let mut lbls = Vec::new();
    let mut k = 0;
    while k < labels {
        lbls.push(Label { span: any_span(&t), message: ArenaCow::Borrowed("m") });
        k += 1;
    }
    let diag = Diagnostic { labels: lbls, span: any_span(&t), code: "c", message: "m", severity: Severity::Error };
    let (line, col, ls, le) = d.line_col_from_span(src, diag.span.start);
    assert!(line >= 1 && col >= 1, "line-col: 1-based");
    assert!(ls <= diag.span.start && diag.span.start <= le && le <= N, "line-col: the span start lies on the reported line");
    assert!(boundary(&t, ls) && boundary(&t, le), "line-col: line bounds on character boundaries");
    let mut buf = ArenaString::new_in(arena);
    d.render_diagnostic(&diag, src, "f", 1, Some(&mut buf));
    kani::cover!(N < 2 || line > 1, "diagnostic on a later line");
    kani::cover!(N < 2 || (t[0] == b'\r' && t[1] == b'\n'), "CRLF text");
    kani::cover!(N < 1 || t[0] == b'\t', "tab in the text");
    kani::cover!(N < 2 || t[0] >= 0x80, "multi-byte character");
    std::mem::forget(buf);
    std::mem::forget(diag);
    std::mem::forget(d);
}

macro_rules! render_total {
    ($name:ident, $n:literal, $labels:literal, $unw:literal) => {
        #[kani::proof]
        #[kani::stub(crate::sys::unix::UnixVirtualMemory::reserve, crate::verif_common::reserve_2k)]
        #[kani::stub(crate::sys::unix::UnixVirtualMemory::commit, crate::verif_common::commit_ok)]
        #[kani::stub(crate::sys::unix::UnixVirtualMemory::decommit, crate::verif_common::vm_nop)]
        #[kani::stub(crate::sys::unix::UnixVirtualMemory::release, crate::verif_common::vm_nop)]
        #[kani::stub(memchr_rs::memchr2::memchr2, crate::verif_common::memchr2)]
        #[kani::stub(core::fmt::write, crate::verif_common::fmt_write)]
        #[kani::stub(alloc::fmt::format, crate::verif_common::fmt_format)]
        #[kani::stub(core::str::count::count_chars, crate::verif_common::count_chars)]
        #[kani::stub(crate::arena::string::ArenaString::new_in, crate::arena::string::ArenaString::verif_new_in)]
        #[kani::stub(crate::arena::string::ArenaString::with_capacity_in, crate::arena::string::ArenaString::verif_with_capacity_in)]
        #[kani::stub(crate::arena::string::ArenaString::push_str, crate::arena::string::ArenaString::verif_push_str)]
        #[kani::stub(crate::arena::string::ArenaString::push, crate::arena::string::ArenaString::verif_push)]
        #[kani::stub(crate::diagnostics::Diagnostics::render_caret_line, crate::diagnostics::Diagnostics::verif_render_caret_line)]
        #[kani::stub(crate::diagnostics::Diagnostics::render_label_line, crate::diagnostics::Diagnostics::verif_render_label_line)]
        #[kani::stub(crate::diagnostics::Diagnostics::render_header, crate::diagnostics::Diagnostics::verif_render_header)]
        #[kani::stub(crate::diagnostics::Diagnostics::render_location, crate::diagnostics::Diagnostics::verif_render_location)]
        #[kani::stub(crate::diagnostics::Diagnostics::render_gutter, crate::diagnostics::Diagnostics::verif_render_gutter)]
        #[kani::stub(crate::diagnostics::Diagnostics::render_plain_gutter, crate::diagnostics::Diagnostics::verif_render_plain_gutter)]
        #[kani::stub(crate::diagnostics::Severity::write_to_stream_or_buf, write_nop)]
        #[kani::unwind($unw)]
        fn $name() { render_total::<$n>($labels) }
    };
}
macro_rules! render_total_cut {
    ($name:ident, $n:literal, $labels:literal, $unw:literal) => {
        #[kani::proof]
        #[kani::stub(crate::sys::unix::UnixVirtualMemory::reserve, crate::verif_common::reserve_2k)]
        #[kani::stub(crate::sys::unix::UnixVirtualMemory::commit, crate::verif_common::commit_ok)]
        #[kani::stub(crate::sys::unix::UnixVirtualMemory::decommit, crate::verif_common::vm_nop)]
        #[kani::stub(crate::sys::unix::UnixVirtualMemory::release, crate::verif_common::vm_nop)]
        #[kani::stub(memchr_rs::memchr2::memchr2, crate::verif_common::memchr2)]
        #[kani::stub(core::fmt::write, crate::verif_common::fmt_write)]
        #[kani::stub(alloc::fmt::format, crate::verif_common::fmt_format)]
        #[kani::stub(core::str::count::count_chars, crate::verif_common::count_chars)]
        #[kani::stub(crate::arena::string::ArenaString::new_in, crate::arena::string::ArenaString::verif_new_in)]
        #[kani::stub(crate::arena::string::ArenaString::with_capacity_in, crate::arena::string::ArenaString::verif_with_capacity_in)]
        #[kani::stub(crate::arena::string::ArenaString::push_str, crate::arena::string::ArenaString::verif_push_str)]
        #[kani::stub(crate::arena::string::ArenaString::push, crate::arena::string::ArenaString::verif_push)]
        #[kani::stub(crate::diagnostics::Diagnostics::render_caret_line, crate::diagnostics::Diagnostics::verif_render_caret_line)]
        #[kani::stub(crate::diagnostics::Diagnostics::render_label_line, crate::diagnostics::Diagnostics::verif_render_label_line)]
        #[kani::stub(crate::diagnostics::Diagnostics::render_header, crate::diagnostics::Diagnostics::verif_render_header)]
        #[kani::stub(crate::diagnostics::Diagnostics::render_location, crate::diagnostics::Diagnostics::verif_render_location)]
        #[kani::stub(crate::diagnostics::Diagnostics::render_gutter, crate::diagnostics::Diagnostics::verif_render_gutter)]
        #[kani::stub(crate::diagnostics::Diagnostics::render_plain_gutter, crate::diagnostics::Diagnostics::verif_render_plain_gutter)]
        #[kani::stub(crate::diagnostics::Diagnostics::expand_tabs, crate::diagnostics::Diagnostics::verif_expand_tabs)]
        #[kani::stub(crate::diagnostics::Diagnostics::visual_col, crate::diagnostics::Diagnostics::verif_visual_col)]
        #[kani::stub(crate::diagnostics::Severity::write_to_stream_or_buf, write_nop)]
        #[kani::unwind($unw)]
        fn $name() { render_total::<$n>($labels) }
    };
}


// ---- 7.f (building blocks) ---------------------------------------------------------------
fn line_col_step<const N: usize>() {
    let arena = Arena::new(1).unwrap();
    let arena: &'static Arena = unsafe { &*(&arena as *const Arena) };
    let mut t = [0u8; N];
    let mut i = 0;
    while i < N {
        t[i] = kani::any();
        i += 1;
    }
    kani::assume(valid_text(&t));
    let src = unsafe { std::str::from_utf8_unchecked(&t) };
    let start: usize = kani::any();
    kani::assume(start <= N && boundary(&t, start));
    let d = Diagnostics::new(arena);
    let (line, col, ls, le) = d.line_col_from_span(src, start);
    assert!(line >= 1 && col >= 1, "line-col: 1-based");
    assert!(ls <= start && start <= le && le <= N, "line-col: the position lies on the reported line");
    assert!(boundary(&t, ls) && boundary(&t, le), "line-col: line bounds on character boundaries");
    // consequences the renderer relies on for its slice expressions
    let end: usize = kani::any();
    kani::assume(start <= end && end <= N && boundary(&t, end));
    let m = if end < le { end } else { le };
    assert!(start <= m && boundary(&t, m), "slices: src[start..min(end, line_end)] is a valid slice");
    // a line break is never inside the reported line, except the CR of a CRLF pair at its end
    let mut i = ls;
    while i < le {
        assert!(t[i] != b'\n' && (t[i] != b'\r' || i + 1 == le), "line-col: no line break inside the line");
        i += 1;
    }
    kani::cover!(N < 2 || line > 1, "a later line");
    kani::cover!(N < 2 || (t[0] == b'\r' && t[1] == b'\n'), "CRLF text");
    kani::cover!(N < 2 || (t[0] >= 0x80 && start == 2), "position after a multi-byte character");
    std::mem::forget(d);
}
macro_rules! line_col_step {
    ($name:ident, $n:literal, $unw:literal) => {
        #[kani::proof]
        #[kani::stub(crate::sys::unix::UnixVirtualMemory::reserve, crate::verif_common::reserve_1k)]
        #[kani::stub(crate::sys::unix::UnixVirtualMemory::commit, crate::verif_common::commit_ok)]
        #[kani::stub(crate::sys::unix::UnixVirtualMemory::decommit, crate::verif_common::vm_nop)]
        #[kani::stub(crate::sys::unix::UnixVirtualMemory::release, crate::verif_common::vm_nop)]
        #[kani::stub(memchr_rs::memchr2::memchr2, crate::verif_common::memchr2)]
        #[kani::unwind($unw)]
        fn $name() { line_col_step::<$n>() }
    };
}

fn tabs_step<const N: usize>() {
    let arena = Arena::new(1).unwrap();
    let arena: &'static Arena = unsafe { &*(&arena as *const Arena) };
    let mut t = [0u8; N];
    let mut i = 0;
    let mut chars = 0;
    while i < N {
        t[i] = kani::any();
        if (t[i] & 0xC0) != 0x80 {
            chars += 1;
        }
        i += 1;
    }
    kani::assume(valid_text(&t));
    let src = unsafe { std::str::from_utf8_unchecked(&t) };
    let d = Diagnostics::new(arena);
    let v = Diagnostics::visual_col(src);
    assert!(v >= chars && v <= 4 * chars, "visual-col: between one and four columns per character");
    let e = d.expand_tabs(src);
    let eb = e.as_bytes();
    let mut i = 0;
    while i < eb.len() {
        assert!(eb[i] != b'\t', "expand-tabs: no tab survives");
        i += 1;
    }
    assert!(eb.len() >= N && eb.len() <= 4 * N, "expand-tabs: every character kept, tabs widened to at most four spaces");
    kani::cover!(N < 1 || t[0] == b'\t', "a tab");
    std::mem::forget(e);
    std::mem::forget(d);
}
macro_rules! tabs_step {
    ($name:ident, $n:literal, $unw:literal) => {
        #[kani::proof]
        #[kani::stub(crate::sys::unix::UnixVirtualMemory::reserve, crate::verif_common::reserve_1k)]
        #[kani::stub(crate::sys::unix::UnixVirtualMemory::commit, crate::verif_common::commit_ok)]
        #[kani::stub(crate::sys::unix::UnixVirtualMemory::decommit, crate::verif_common::vm_nop)]
        #[kani::stub(crate::sys::unix::UnixVirtualMemory::release, crate::verif_common::vm_nop)]
        #[kani::stub(crate::arena::string::ArenaString::with_capacity_in, crate::arena::string::ArenaString::verif_with_capacity_in)]
        #[kani::stub(crate::arena::string::ArenaString::push, crate::arena::string::ArenaString::verif_push)]
        #[kani::unwind($unw)]
        fn $name() { tabs_step::<$n>() }
    };
}
