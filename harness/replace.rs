// C13 harnesses for `builtins::replace` — differential against the definition.
#![allow(dead_code, unused)]
use super::*;
use crate::verif_common::vm_proof;

const OUT_CAP: usize = 24;

/// Contract stub for `find`: the first occurrence by definition (find's own agreement with
/// the definition is obligation 13.a/13.b).
fn find_ref(haystack: &str, needle: &str) -> Option<usize> {
    crate::builtins::tw::verif_tw::naive_find(haystack.as_bytes(), needle.as_bytes())
}

fn matches_at(h: &[u8], f: &[u8], i: usize) -> bool {
    if i + f.len() > h.len() {
        return false;
    }
    let mut j = 0;
    while j < f.len() {
        if h[i + j] != f[j] {
            return false;
        }
        j += 1;
    }
    true
}

/// Definition: scan left to right, substitute every non-overlapping occurrence.
/// For the empty pattern: `to` before every character and at the end.
fn naive_replace(h: &[u8], f: &[u8], t: &[u8], out: &mut [u8; OUT_CAP]) -> usize {
    let mut o = 0;
    let mut i = 0;
    if f.is_empty() {
        loop {
            let mut k = 0;
            while k < t.len() {
                out[o] = t[k];
                o += 1;
                k += 1;
            }
            if i >= h.len() {
                break;
            }
            // copy one whole character (1 or 2 bytes in the modelled alphabet)
            let w = if h[i] < 0x80 { 1 } else { 2 };
            let mut k = 0;
            while k < w {
                out[o] = h[i + k];
                o += 1;
                k += 1;
            }
            i += w;
        }
        return o;
    }
    while i < h.len() {
        if matches_at(h, f, i) {
            let mut k = 0;
            while k < t.len() {
                out[o] = t[k];
                o += 1;
                k += 1;
            }
            i += f.len();
        } else {
            out[o] = h[i];
            o += 1;
            i += 1;
        }
    }
    o
}

/// Symbolic text of concrete byte length N: ASCII bytes, or (wide) 2-byte characters.
fn any_text<const N: usize>(wide: bool) -> [u8; N] {
    let mut out = [0u8; N];
    let mut i = 0;
    while i < N {
        if wide && i + 1 < N {
            let a: u8 = kani::any();
            let b: u8 = kani::any();
            kani::assume(a >= 0xC2 && a <= 0xC3 && b >= 0x80 && b <= 0x81);
            out[i] = a;
            out[i + 1] = b;
            i += 2;
        } else {
            let a: u8 = kani::any();
            kani::assume(a < 0x80);
            // keep the alphabet small enough for matches to be likely but all relations possible
            out[i] = a;
            i += 1;
        }
    }
    out
}

fn valid_utf8_model(b: &[u8]) -> bool {
    let mut i = 0;
    while i < b.len() {
        if b[i] < 0x80 {
            i += 1;
        } else if b[i] >= 0xC2 && b[i] <= 0xDF && i + 1 < b.len() && b[i + 1] >= 0x80 && b[i + 1] <= 0xBF {
            i += 2;
        } else {
            return false;
        }
    }
    true
}

fn replace_diff<const H: usize, const F: usize, const T: usize>(wide: bool) {
    let arena = Arena::new(1).unwrap();
    let hb = any_text::<H>(wide);
    let fb = any_text::<F>(wide);
    let tb = any_text::<T>(wide);
    let (hs, fs, ts) = unsafe {
        (std::str::from_utf8_unchecked(&hb), std::str::from_utf8_unchecked(&fb), std::str::from_utf8_unchecked(&tb))
    };
    let got = replace(&arena, hs, fs, ts);
    let mut want = [0u8; OUT_CAP];
    let wn = naive_replace(&hb, &fb, &tb, &mut want);
    let gb = got.as_bytes();
    assert!(gb.len() == wn, "replace-length: result length differs from the definition");
    let mut i = 0;
    while i < wn {
        assert!(gb[i] == want[i], "replace-bytes: result differs from the definition");
        i += 1;
    }
    assert!(valid_utf8_model(gb), "utf8: result is valid UTF-8");
    kani::cover!(F == 0 || H < F || wn != H || T == F, "a substitution happened");
    std::mem::forget(got);
    std::mem::forget(arena);
}

macro_rules! replace_diff {
    ($name:ident, $h:literal, $f:literal, $t:literal, $wide:literal, $unw:literal) => {
        #[kani::proof]
        #[kani::stub(crate::sys::unix::UnixVirtualMemory::reserve, crate::verif_common::reserve_512)]
        #[kani::stub(crate::sys::unix::UnixVirtualMemory::commit, crate::verif_common::commit_ok)]
        #[kani::stub(crate::sys::unix::UnixVirtualMemory::decommit, crate::verif_common::vm_nop)]
        #[kani::stub(crate::sys::unix::UnixVirtualMemory::release, crate::verif_common::vm_nop)]
        #[kani::stub(crate::builtins::tw::find, find_ref)]
        #[kani::stub(crate::arena::string::ArenaString::with_capacity_in, crate::arena::string::ArenaString::verif_with_capacity_in)]
        #[kani::stub(crate::arena::string::ArenaString::new_in, crate::arena::string::ArenaString::verif_new_in)]
        #[kani::stub(crate::arena::string::ArenaString::push_str, crate::arena::string::ArenaString::verif_push_str)]
        #[kani::stub(crate::arena::string::ArenaString::push, crate::arena::string::ArenaString::verif_push)]
        #[kani::unwind($unw)]
        fn $name() {
            replace_diff::<$h, $f, $t>($wide)
        }
    };
}
