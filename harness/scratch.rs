// C11 / 11.f harnesses — child module of `arena::scratch` (sees S_SCRATCH).
#![allow(dead_code, unused, static_mut_refs)]
use super::*;
use crate::arena::bump::verif_bump as vb;
use crate::arena::bump::verif_bump::bump_proof;
use std::alloc::{Allocator, Layout};

/// Both scratch arenas in arbitrary valid states (offset <= 128) over model buffers.
unsafe fn any_scratch() -> (*mut u8, *mut u8) {
    let b0 = vb::model_buf_pub(512);
    let b1 = vb::model_buf_pub(512);
    unsafe {
        S_SCRATCH[0] = vb::any_arena_window(b0, 128);
        S_SCRATCH[1] = vb::any_arena_window(b1, 128);
    }
    (b0, b1)
}

fn targets(s: &ScratchArena<'_>, buf: *mut u8) -> bool {
    s.contains_ptr(buf as *const u8)
}

fn alloc_bytes(s: &ScratchArena<'_>, n: usize) -> *mut u8 {
    let p = s.allocate(Layout::from_size_align(n, 1).unwrap()).unwrap();
    p.cast::<u8>().as_ptr()
}

// The arena handed out is never the one the caller is already using.
bump_proof! {
    fn scratch_pick() {
        let (b0, b1) = unsafe { any_scratch() };
        let s1 = scratch_arena(None);
        assert!(targets(&s1, b0) && !targets(&s1, b1), "pick: no conflict -> first scratch arena");
        let s2 = scratch_arena(Some(&s1));
        assert!(targets(&s2, b1) && !targets(&s2, b0), "pick: conflict with arena 0 -> arena 1");
        let s3 = scratch_arena(Some(&s2));
        assert!(targets(&s3, b0) && !targets(&s3, b1), "pick: conflict with arena 1 -> arena 0");
        let fb = vb::model_buf_pub(64 * 1024);
        let foreign = Arena::new(1).unwrap();
        let s4 = scratch_arena(Some(&foreign));
        assert!(targets(&s4, b0) || targets(&s4, b1), "pick: foreign conflict -> one of the scratch arenas");
        kani::cover!(true, "all four conflict kinds exercised");
        drop(s4);
        drop(s3);
        drop(s2);
        drop(s1);
        std::mem::forget(foreign);
    }
}

// Nested borrow / allocate / drop in LIFO order restores both offsets and keeps outer data.
bump_proof! {
    fn scratch_nested_lifo() {
        let (b0, b1) = unsafe { any_scratch() };
        let (_, _, off0) = unsafe { vb::state_of(&S_SCRATCH[0]) };
        let (_, _, off1) = unsafe { vb::state_of(&S_SCRATCH[1]) };
        let n1: usize = kani::any();
        let n2: usize = kani::any();
        let n3: usize = kani::any();
        kani::assume(n1 >= 1 && n1 <= 32 && n2 <= 32 && n3 <= 32);
        let s1 = scratch_arena(None);
        let p1 = alloc_bytes(&s1, n1);
        let tag: u8 = kani::any();
        let i: usize = kani::any();
        kani::assume(i < n1);
        unsafe { *p1.add(i) = tag };
        {
            let s2 = scratch_arena(Some(&s1));
            let p2 = alloc_bytes(&s2, n2);
            assert!(targets(&s2, b1), "pick: inner scratch uses the other arena");
            {
                let s3 = scratch_arena(Some(&s2));
                let p3 = alloc_bytes(&s3, n3);
                assert!(p3 as usize >= p1 as usize + n1, "disjoint: inner block above the outer borrow's block");
                unsafe { if n3 > 0 { *p3 = 0x5A; } }
            }
            // s3 dropped: arena 0 back to where s3 borrowed it, outer data intact
            let (_, c, o) = unsafe { vb::state_of(&S_SCRATCH[0]) };
            assert!(o == off0 + n1, "drop: offset restored to the value at borrow");
            assert!(unsafe { *p1.add(i) } == tag, "drop: outer borrow's data untouched by inner drop");
            assert!(unsafe { vb::inv_pub(&S_SCRATCH[0]) }, "invariant: I11 after scratch drop");
        }
        let (_, _, o1) = unsafe { vb::state_of(&S_SCRATCH[1]) };
        assert!(o1 == off1, "drop: second arena restored");
        assert!(unsafe { *p1.add(i) } == tag, "drop: outer data untouched");
        drop(s1);
        let (_, c0, o0) = unsafe { vb::state_of(&S_SCRATCH[0]) };
        assert!(o0 == off0, "drop: first arena restored");
        assert!(c0 == if o0 == 0 { 0 } else { 64 * 1024 }, "drop: decommit keeps only the chunks in use");
        kani::cover!(n2 > 0 && n3 > 0, "three live borrows with data");
    }
}

// init() on initialised arenas gives offset 0 on both for any prior state; on empty ones reserves.
bump_proof! {
    fn scratch_init_reinit() {
        let fresh: bool = kani::any();
        let (b0, b1) = if fresh { (std::ptr::null_mut(), std::ptr::null_mut()) } else { unsafe { any_scratch() } };
        if fresh {
            let _ = vb::model_buf_pub(64);
            kani::assume(unsafe { S_SCRATCH[0].is_empty() && S_SCRATCH[1].is_empty() });
        }
        let r = init(3 * 64 * 1024);
        assert!(r.is_ok(), "init: succeeds");
        unsafe {
            let (base0, _, o0) = vb::state_of(&S_SCRATCH[0]);
            let (base1, _, o1) = vb::state_of(&S_SCRATCH[1]);
            assert!(o0 == 0 && o1 == 0, "init: both offsets are zero whatever the prior state");
            assert!(!S_SCRATCH[0].is_empty() && !S_SCRATCH[1].is_empty(), "init: both arenas usable");
            if !fresh {
                assert!(base0 == b0 as usize && base1 == b1 as usize, "init: existing reservations are kept");
            } else {
                assert!(base0 != base1, "init: two distinct reservations");
            }
        }
        let s = scratch_arena(None);
        let p = alloc_bytes(&s, 8);
        unsafe {
            let (base0, _, _) = vb::state_of(&S_SCRATCH[0]);
            assert!(p as usize == base0, "init: first allocation after init starts at the base");
        }
        kani::cover!(fresh, "first initialisation");
        kani::cover!(!fresh, "re-initialisation from an arbitrary state");
    }
}

// A-profile: using an older borrow while a newer one is live trips the debug wrapper.
#[cfg(debug_assertions)]
bump_proof! {
    #[kani::should_panic]
    fn scratch_stale_borrow_guard() {
        let (b0, b1) = unsafe { any_scratch() };
        let s1 = scratch_arena(None);
        let s3 = scratch_arena(None); // same arena, newer borrow
        let _p = alloc_bytes(&s1, 8); // stale use
        kani::cover!(true, "never: stale scratch borrow was usable while a newer borrow is live");
        std::mem::forget(s3);
        std::mem::forget(s1);
    }
}
