// C02 harnesses — child module of `runtime`: the reclamation points keep a string's bytes intact
// for every aliasing a caller can create (strings of 2 symbolic bytes, every provenance class).
#![allow(dead_code, unused)]
use super::*;
use crate::arena::PoolSet;

macro_rules! rt_proof {
    ($(#[$m:meta])* fn $name:ident() $body:block) => {
        #[kani::proof]
        #[kani::stub(crate::sys::unix::UnixVirtualMemory::reserve, rt_reserve)]
        #[kani::stub(crate::sys::unix::UnixVirtualMemory::commit, crate::verif_common::commit_ok)]
        #[kani::stub(crate::sys::unix::UnixVirtualMemory::decommit, crate::verif_common::vm_nop)]
        #[kani::stub(crate::sys::unix::UnixVirtualMemory::release, crate::verif_common::vm_nop)]
        #[kani::stub(crate::arena::pool::PoolSet::new, crate::arena::pool::PoolSet::verif_tiny)]
        #[kani::stub(crate::arena::pool::PoolSet::contains, crate::arena::pool::PoolSet::verif_contains2)]
        #[kani::stub(core::fmt::write, crate::verif_common::fmt_write)]
        $(#[$m])*
        fn $name() $body
    };
}

/// Persistent arena (requested > 64 KiB): 960-byte model (PoolSet::verif_tiny needs ~70 bytes);
/// frame arena: 512-byte model.
fn rt_reserve(size: usize) -> Result<std::ptr::NonNull<u8>, u32> {
    let sz = if size > 65536 { 960 } else { 512 };
    let layout = std::alloc::Layout::from_size_align(sz, 4096).unwrap();
    let p = unsafe { std::alloc::alloc(layout) };
    std::ptr::NonNull::new(p).ok_or(12)
}

macro_rules! arenas {
    ($arena:ident, $frame:ident, $pool:ident) => {
        arenas!($arena, $frame, $pool, slot_base_unused);
    };
    ($arena:ident, $frame:ident, $pool:ident, $slots:ident) => {
        let arena_store = Arena::new(100_000).unwrap();
        let $arena: &'static Arena = unsafe { &*(&arena_store as *const Arena) };
        let frame_store = Arena::new(1).unwrap();
        let $frame: &'static Arena = unsafe { &*(&frame_store as *const Arena) };
        // pools over small stack buffers (tracked field-sensitively: recycled slot addresses stay concrete)
        // slot memory: byte arrays of more than 64 elements, so that CBMC does NOT split them into
        // per-element objects (a memcpy from one element of a split array to another read a stale
        // version of the source element: a tool artefact that showed up as a false "bytes lost")
        let mut slots0 = SlotMem([0u8; 128]);
        let mut slots1 = SlotMem([0u8; 128]);
        let mut idx0 = [0u32; 2];
        let mut idx1 = [0u32; 2];
        let pool_store = PoolSet::verif_over($arena, slots0.0.as_mut_ptr(), idx0.as_mut_ptr(), slots1.0.as_mut_ptr(), idx1.as_mut_ptr());
        let $pool: &'static PoolSet<'static> = unsafe { &*(&pool_store as *const PoolSet<'static>) };
        let $slots: *const u8 = slots0.0.as_ptr();
    };
}

#[repr(align(8))]
struct SlotMem([u8; 128]);

fn two_bytes() -> [u8; 2] {
    let s: [u8; 2] = [kani::any(), kani::any()];
    kani::assume(s[0] < 128 && s[1] < 128);
    s
}
fn as_text(b: &[u8; 2]) -> &'static str {
    unsafe { std::mem::transmute::<&str, &'static str>(std::str::from_utf8_unchecked(b)) }
}
/// Content check by *location*: the string must sit at one of the known concrete places and the two
/// bytes there must be the expected ones.  (Reading the bytes through the result value itself — a
/// pointer merged from several return paths — made every instance run out of memory; comparing the
/// pointer against concrete candidates and reading through the candidate does not.)
fn bytes_at(c: &ArenaCow<'_>, s: &[u8; 2], known: &[*const u8]) -> bool {
    if c.len() != 2 {
        return false;
    }
    let p = c.as_bytes().as_ptr();
    let mut i = 0;
    while i < known.len() {
        if p == known[i] {
            return unsafe { *known[i] == s[0] && *known[i].add(1) == s[1] };
        }
        i += 1;
    }
    false
}
fn same2(c: &ArenaCow<'_>, s: &[u8; 2]) -> bool {
    let b = c.as_bytes();
    b.len() == 2 && b[0] == s[0] && b[1] == s[1]
}

// ---- 2.a ArenaCow::promote, one instance per provenance class -----------------------------------
fn promote_class(class: u8) {
    arenas!(arena, frame, pool, slot0);
    let s = two_bytes();
    let text = as_text(&s);
    // storage only in the region the class needs (every extra ArenaString::from_str drags in the Vec
    // growth machinery once more)
    let alias = |x: &ArenaString<'static>| unsafe { std::mem::transmute::<&str, &'static str>(x.as_str()) };
    let mut keep: Option<ArenaString<'static>> = None;
    let (input, in_ptr): (ArenaCow<'static>, *const u8) = match class {
        0 => (ArenaCow::Borrowed(text), text.as_ptr()),
        1 => {
            let st = ArenaString::from_str(arena, text);
            let r = (ArenaCow::Borrowed(alias(&st)), st.as_ptr());
            keep = Some(st);
            r
        }
        2 => {
            let st = pool.alloc_str(text);
            let r = (ArenaCow::Borrowed(alias(&st)), st.as_ptr());
            keep = Some(st);
            r
        }
        3 => {
            let st = ArenaString::from_str(frame, text);
            let r = (ArenaCow::Borrowed(alias(&st)), st.as_ptr());
            keep = Some(st);
            r
        }
        4 => (ArenaCow::Owned(ArenaString::from_str(frame, text)), std::ptr::null()),
        5 => {
            let own = pool.alloc_str(text);
            let p = own.as_ptr();
            (ArenaCow::Owned(own), p)
        }
        _ => {
            let own = ArenaString::from_str(arena, text);
            let p = own.as_ptr();
            (ArenaCow::Owned(own), p)
        }
    };
    // where a result can legitimately live: the input's own storage, or the next slot of class 0
    let known = [in_ptr, slot0, unsafe { slot0.add(8) }, text.as_ptr()];
    let out = input.promote(pool, frame);
    let op = out.as_bytes().as_ptr();
    assert!(bytes_at(&out, &s, &known), "bytes-preserved: promote keeps the string's bytes (at one of the places a result may live)");
    assert!(!frame.contains_ptr(op), "no-frame-alias: a promoted string never lives in the frame arena");
    match class {
        0 | 1 => assert!(out.is_borrowed() && op == in_ptr, "pass-through: source text and persistent-arena aliases are returned unchanged"),
        2 => {
            assert!(out.is_owned() && op != in_ptr, "own-slot: an alias of a pool slot is copied into storage of its own");
            assert!(pool.contains(op) || arena.contains_ptr(op), "own-slot: the copy lives in a pool slot or in persistent memory");
        }
        3 | 4 => assert!(out.is_owned(), "copied: frame data is copied out"),
        _ => assert!(out.is_owned() && op == in_ptr, "pass-through: an owned persistent string is returned unchanged (no double promote)"),
    }
    kani::cover!(true, "promote reached");
    std::mem::forget(out);
    std::mem::forget(keep);
}
macro_rules! promote_class {
    ($name:ident, $class:literal) => {
        rt_proof! { #[kani::unwind(7)] fn $name() { promote_class($class) } }
    };
}

// ---- 2.c overwrite_slot with a value that may alias the slot's own storage --------------------------
fn overwrite_class(class: u8) {
    arenas!(arena, frame, pool, slot0);
    let s = two_bytes();
    let t = two_bytes();
    let mut slot = Value::Str(ArenaCow::Owned(pool.alloc_str(as_text(&s))));
    let slot_ptr = match &slot { Value::Str(c) => c.as_bytes().as_ptr(), _ => std::ptr::null() };
    let (val, want): (Value<'static>, [u8; 2]) = match class {
        // `x get x`: reading x yields a Borrowed alias of x's own slot
        0 => (match &slot { Value::Str(c) => Value::Str(c.clone()), _ => Value::Null }, s),
        // a fresh temporary on the frame (`x get x add ""`, `x get f()`)
        1 => (Value::Str(ArenaCow::Owned(ArenaString::from_str(frame, as_text(&t)))), t),
        // a source literal
        _ => (Value::Str(ArenaCow::Borrowed(as_text(&t))), t),
    };
    Runtime::overwrite_slot(&mut slot, val, true, pool, frame);
    match &slot {
        Value::Str(c) => {
            let known = [slot0, unsafe { slot0.add(8) }, as_text(&t).as_ptr()];
            assert!(bytes_at(c, &want, &known), "bytes-preserved: the slot holds the assigned value's bytes");
            assert!(!frame.contains_ptr(c.as_bytes().as_ptr()), "no-frame-alias: a stored value never lives in the frame arena");
        }
        _ => assert!(false, "kind: the slot holds a string"),
    }
    kani::cover!(true, "overwrite reached");
    std::mem::forget(slot);
}
macro_rules! overwrite_class {
    ($name:ident, $class:literal) => {
        rt_proof! { #[kani::unwind(4)] fn $name() { overwrite_class($class) } }
    };
}

// ---- 2.b relocate_return_value: the value a call returns survives the callee's frame reset -----------
/// Runtime harnesses: the pools live in static buffers, so the persistent arena only holds the
/// staging copy; both arenas get 128-byte models (small, but above CBMC's 64-element threshold for
/// splitting arrays into per-element objects, see SlotMem).
fn rt_reserve_small(_size: usize) -> Result<std::ptr::NonNull<u8>, u32> {
    let layout = std::alloc::Layout::from_size_align(128, 4096).unwrap();
    let p = unsafe { std::alloc::alloc(layout) };
    std::ptr::NonNull::new(p).ok_or(12)
}

macro_rules! rt_proof_runtime {
    ($(#[$m:meta])* fn $name:ident() $body:block) => {
        #[kani::proof]
        #[kani::stub(crate::sys::unix::UnixVirtualMemory::reserve, rt_reserve_small)]
        #[kani::stub(crate::sys::unix::UnixVirtualMemory::commit, crate::verif_common::commit_ok)]
        #[kani::stub(crate::sys::unix::UnixVirtualMemory::decommit, crate::verif_common::vm_nop)]
        #[kani::stub(crate::sys::unix::UnixVirtualMemory::release, crate::verif_common::vm_nop)]
        #[kani::stub(crate::arena::pool::PoolSet::new, crate::arena::pool::PoolSet::verif_static)]
        #[kani::stub(crate::arena::pool::PoolSet::contains, crate::arena::pool::PoolSet::verif_contains2)]
        #[kani::stub(core::fmt::write, crate::verif_common::fmt_write)]
        $(#[$m])*
        fn $name() $body
    };
}

fn frame_base(frame: &Arena) -> *const u8 {
    use std::alloc::{Allocator, Layout};
    let off = frame.offset();
    let p = frame.allocate(Layout::from_size_align(0, 1).unwrap()).unwrap();
    unsafe { p.cast::<u8>().as_ptr().sub(off) }
}

/// class: 0 owned frame string above the mark; 1 borrowed source text; 2 owned pool slot;
/// 3 borrowed alias into the frame above the mark (a parameter bound to a temporary, `return p`);
/// 4 borrowed alias of a pool slot already released by the scope pop (`return s`, s a local).
/// Classes 3 and 4 are what callers handed in before the repair of the return statement (they
/// are kept as instances: a regression that stops detaching returned views shows up in 2.b', and
/// these two document what relocate_return_value alone cannot save).
fn relocate_class(class: u8) {
    let arena_store = Arena::new(100_000).unwrap();
    let arena: &'static Arena = unsafe { &*(&arena_store as *const Arena) };
    let frame_store = Arena::new(1).unwrap();
    let frame: &'static Arena = unsafe { &*(&frame_store as *const Arena) };
    let rt = Runtime::new(arena, Some(frame));
    let s = two_bytes();
    let u = two_bytes();
    let text = as_text(&s);
    let fbase = frame_base(frame);
    let mark = frame.offset();
    let slot0 = PoolSet::verif_slot0_base();
    let alias = |x: &ArenaString<'static>| unsafe { std::mem::transmute::<&str, &'static str>(x.as_str()) };
    let mut keep: Option<ArenaString<'static>> = None;
    let val: Value<'static> = match class {
        0 => Value::Str(ArenaCow::Owned(ArenaString::from_str(frame, text))),
        1 => Value::Str(ArenaCow::Borrowed(text)),
        2 => Value::Str(ArenaCow::Owned(rt.pool.alloc_str(text))),
        3 => {
            let st = ArenaString::from_str(frame, text);
            let v = Value::Str(ArenaCow::Borrowed(alias(&st)));
            keep = Some(st);
            v
        }
        _ => {
            let st = rt.pool.alloc_str(text);
            let v = Value::Str(ArenaCow::Borrowed(alias(&st)));
            // the scope that owned the local was popped before the call returns
            unsafe { rt.pool.dealloc(std::ptr::NonNull::new_unchecked(st.as_ptr() as *mut u8), 2) };
            keep = Some(st);
            v
        }
    };
    let out = rt.relocate_return_value(val, mark);
    // the caller carries on: new temporaries on the frame and a new pooled string, other bytes
    let junk_f = ArenaString::from_str(frame, as_text(&u));
    let junk_p = rt.pool.alloc_str(as_text(&u));
    let known = [unsafe { fbase.add(mark) }, text.as_ptr(), slot0, unsafe { slot0.add(8) }];
    match &out {
        Value::Str(c) => assert!(bytes_at(c, &s, &known), "bytes-preserved: the returned string still reads as it did inside the callee"),
        _ => assert!(false, "kind: a returned string stays a string"),
    }
    assert!(frame.offset() >= mark, "frame: reset to the caller's mark before the caller's next temporaries");
    kani::cover!(u[0] != s[0], "reclaimed storage re-used with different bytes");
    std::mem::forget(out);
    std::mem::forget(junk_f);
    std::mem::forget(junk_p);
    std::mem::forget(keep);
    std::mem::forget(rt);
}
/// A host value (here a process result) created inside the callee lives on the callee's frame.
fn relocate_host() {
    use crate::process::{HostHandle, HostValue, ProcessResult};
    let arena_store = Arena::new(100_000).unwrap();
    let arena: &'static Arena = unsafe { &*(&arena_store as *const Arena) };
    let frame_store = Arena::new(1).unwrap();
    let frame: &'static Arena = unsafe { &*(&frame_store as *const Arena) };
    let rt = Runtime::new(arena, Some(frame));
    let mark = frame.offset();
    let ok: bool = kani::any();
    let code: i32 = kani::any();
    let val = Value::Host(HostHandle::new_in(frame, HostValue::ProcessResult(ProcessResult {
        success: ok, exit_code: Some(code), stdout: None, stderr: None })));
    let out = rt.relocate_return_value(val, mark);
    // the caller's next temporary re-uses the reclaimed frame bytes
    let u = two_bytes();
    let junk = ArenaString::from_str(frame, as_text(&u));
    match &out {
        Value::Host(h) => {
            let p = h.get() as *const HostValue<'static> as *const u8;
            assert!(!frame.contains_ptr(p), "no-frame-alias: a returned host value does not stay on the reset frame");
            match h.get() {
                HostValue::ProcessResult(r) => assert!(r.success == ok && r.exit_code == Some(code), "fields-preserved: the returned host value keeps its contents"),
                _ => assert!(false, "kind: a process result stays a process result"),
            }
        }
        _ => assert!(false, "kind: a host value stays a host value"),
    }
    kani::cover!(true, "host relocate reached");
    std::mem::forget(out);
    std::mem::forget(junk);
    std::mem::forget(rt);
}
fn rt_reserve_host(_size: usize) -> Result<std::ptr::NonNull<u8>, u32> {
    // a HostValue is ~200 bytes: 512-byte models for this instance
    let layout = std::alloc::Layout::from_size_align(512, 4096).unwrap();
    let p = unsafe { std::alloc::alloc(layout) };
    std::ptr::NonNull::new(p).ok_or(12)
}
#[kani::proof]
#[kani::stub(crate::sys::unix::UnixVirtualMemory::reserve, rt_reserve_host)]
#[kani::stub(crate::sys::unix::UnixVirtualMemory::commit, crate::verif_common::commit_ok)]
#[kani::stub(crate::sys::unix::UnixVirtualMemory::decommit, crate::verif_common::vm_nop)]
#[kani::stub(crate::sys::unix::UnixVirtualMemory::release, crate::verif_common::vm_nop)]
#[kani::stub(crate::arena::pool::PoolSet::new, crate::arena::pool::PoolSet::verif_static)]
#[kani::stub(crate::arena::pool::PoolSet::contains, crate::arena::pool::PoolSet::verif_contains2)]
#[kani::stub(core::fmt::write, crate::verif_common::fmt_write)]
#[kani::unwind(4)]
fn relocate_host_result() { relocate_host() }

macro_rules! relocate_class {
    ($name:ident, $class:literal) => {
        rt_proof_runtime! { #[kani::unwind(4)] fn $name() { relocate_class($class) } }
    };
}

// ---- 2.b' detach_return_value: what leaves a function does not alias storage that dies with it ------
/// class: 0 borrowed view of a LIVE pool slot (a local, before its scope is popped); 1 borrowed view
/// of a frame temporary; 2 borrowed source text; 3 owned pool string
fn detach_class(class: u8) {
    let arena_store = Arena::new(100_000).unwrap();
    let arena: &'static Arena = unsafe { &*(&arena_store as *const Arena) };
    let frame_store = Arena::new(1).unwrap();
    let frame: &'static Arena = unsafe { &*(&frame_store as *const Arena) };
    let rt = Runtime::new(arena, Some(frame));
    let s = two_bytes();
    let text = as_text(&s);
    let fbase = frame_base(frame);
    let slot0 = PoolSet::verif_slot0_base();
    let alias = |x: &ArenaString<'static>| unsafe { std::mem::transmute::<&str, &'static str>(x.as_str()) };
    let mut keep: Option<ArenaString<'static>> = None;
    let (val, in_ptr): (Value<'static>, *const u8) = match class {
        0 => {
            let st = rt.pool.alloc_str(text);
            let r = (Value::Str(ArenaCow::Borrowed(alias(&st))), st.as_ptr());
            keep = Some(st);
            r
        }
        1 => {
            let st = ArenaString::from_str(frame, text);
            let r = (Value::Str(ArenaCow::Borrowed(alias(&st))), st.as_ptr());
            keep = Some(st);
            r
        }
        2 => (Value::Str(ArenaCow::Borrowed(text)), text.as_ptr()),
        _ => {
            let st = rt.pool.alloc_str(text);
            let p = st.as_ptr();
            (Value::Str(ArenaCow::Owned(st)), p)
        }
    };
    let off = frame.offset();
    let out = rt.detach_return_value(val);
    let known = [unsafe { fbase.add(off) }, in_ptr];
    match &out {
        Value::Str(c) => {
            assert!(bytes_at(c, &s, &known), "bytes-preserved: detaching keeps the string's bytes");
            let p = c.as_bytes().as_ptr();
            if class < 2 {
                assert!(c.is_owned() && p != in_ptr, "detached: a view of a pool slot or of the frame becomes a copy of its own");
                assert!(frame.contains_ptr(p), "detached: the copy lives on the frame (relocate_return_value carries it over the reset)");
            } else {
                assert!(p == in_ptr, "pass-through: source text and owned strings are returned as they are");
            }
        }
        _ => assert!(false, "kind: a string stays a string"),
    }
    kani::cover!(true, "detach reached");
    std::mem::forget(out);
    std::mem::forget(keep);
    std::mem::forget(rt);
}
macro_rules! detach_class {
    ($name:ident, $class:literal) => {
        rt_proof_runtime! { #[kani::unwind(4)] fn $name() { detach_class($class) } }
    };
}

// ---- 2.b'' detach_return_value, array step: every element goes through detach_return_value ----------
// `verif_outer_detach_return_value` is a copy of detach_return_value generated from the current source
// (DESIGN.md A.2, routine duplication); its recursive calls reach the original name, which is replaced by
// the marking stub below.  One step of the recursion is decided for every element kind; the string cases
// the recursion bottoms out in are the detach_class instances above.
static mut DETACH_CALLS: usize = 0;
static mut DETACH_KINDS: [u8; 4] = [0; 4];
fn value_kind(v: &Value<'_>) -> u8 {
    match v {
        Value::Str(ArenaCow::Borrowed(_)) => 1,
        Value::Str(ArenaCow::Owned(_)) => 2,
        Value::Number(_) => 3,
        Value::Bool(_) => 4,
        Value::Array(_) => 5,
        Value::Host(_) => 6,
        Value::Null => 7,
    }
}
impl<'a> Runtime<'a> {
    /// Contract stub for the recursive call: records what it was handed and returns a marker.
    pub fn verif_detach_mark(&self, val: Value<'a>) -> Value<'a> {
        let n = unsafe { DETACH_CALLS };
        if n < 4 {
            unsafe { DETACH_KINDS[n] = value_kind(&val) };
        }
        unsafe { DETACH_CALLS = n + 1 };
        std::mem::forget(val);
        Value::Number(1000.0 + n as f64)
    }
}
fn detach_array_step(len: usize) {
    let arena_store = Arena::new(100_000).unwrap();
    let arena: &'static Arena = unsafe { &*(&arena_store as *const Arena) };
    let frame_store = Arena::new(1).unwrap();
    let frame: &'static Arena = unsafe { &*(&frame_store as *const Arena) };
    let inner_store = Arena::new(1).unwrap();
    let inner_arena: &'static Arena = unsafe { &*(&inner_store as *const Arena) };
    let rt = Runtime::new(arena, Some(frame));
    let s = two_bytes();
    let text = as_text(&s);
    let mut items: Vec<Value<'static>, &'static Arena> = Vec::with_capacity_in(2, frame);
    let mut kinds = [0u8; 2];
    let mut i = 0;
    while i < len {
        let k: u8 = kani::any();
        kani::assume(k < 5);
        let v: Value<'static> = match k {
            0 => Value::Str(ArenaCow::Borrowed(text)),
            1 => Value::Number(kani::any::<u32>() as f64),
            2 => Value::Bool(kani::any()),
            3 => Value::Array(Vec::new_in(inner_arena)),
            _ => Value::Null,
        };
        kinds[i] = value_kind(&v);
        unsafe { std::ptr::write(items.as_mut_ptr().add(i), v); items.set_len(i + 1); }
        i += 1;
    }
    unsafe { DETACH_CALLS = 0 };
    let out = rt.verif_outer_detach_return_value(Value::Array(items));
    assert!(unsafe { DETACH_CALLS } == len, "array-elements: every element of a returned array is detached, once");
    match &out {
        Value::Array(v) => {
            assert!(v.len() == len, "array-length: detaching keeps the number of elements");
            let mut j = 0;
            while j < len {
                assert!(unsafe { DETACH_KINDS[j] } == kinds[j], "array-elements: the element itself is what gets detached, in order");
                match unsafe { &*v.as_ptr().add(j) } {
                    Value::Number(n) => assert!(*n == 1000.0 + j as f64, "array-elements: each element is replaced by its detached value"),
                    _ => assert!(false, "array-elements: each element is replaced by its detached value"),
                }
                j += 1;
            }
        }
        _ => assert!(false, "kind: an array stays an array"),
    }
    kani::cover!(len == 0 || kinds[0] == 5, "a nested array element");
    kani::cover!(len == 0 || kinds[0] == 1, "a string view element");
    std::mem::forget(out);
    std::mem::forget(rt);
}
macro_rules! detach_array_step {
    ($name:ident, $len:literal) => {
        rt_proof_runtime! {
            #[kani::stub(crate::runtime::Runtime::detach_return_value, crate::runtime::Runtime::verif_detach_mark)]
            #[kani::unwind(4)]
            fn $name() { detach_array_step($len) }
        }
    };
}
