// C02 harnesses — child module of `runtime`: the reclamation points keep a string's bytes intact
// for every aliasing a caller can create (strings of 2 symbolic bytes, every provenance class).
#![allow(dead_code, unused)]
use super::*;
use crate::arena::PoolSet;

macro_rules! rt_proof {
    ($(#[$m:meta])* fn $name:ident() $body:block) => {
        #[kani::proof]
        #[kani::stub(crate::sys::unix::UnixVirtualMemory::reserve, rt_reserve)]
        #[kani::stub(crate::sys::unix::UnixVirtualMemory::commit, crate::verif_common::commit_ok)]
        #[kani::stub(crate::sys::unix::UnixVirtualMemory::decommit, crate::verif_common::vm_nop)]
        #[kani::stub(crate::sys::unix::UnixVirtualMemory::release, crate::verif_common::vm_nop)]
        #[kani::stub(crate::arena::pool::PoolSet::new, crate::arena::pool::PoolSet::verif_tiny)]
        #[kani::stub(core::fmt::write, crate::verif_common::fmt_write)]
        $(#[$m])*
        fn $name() $body
    };
}

/// Persistent arena (requested > 64 KiB): 960-byte model (PoolSet::verif_tiny needs ~70 bytes);
/// frame arena: 512-byte model.
fn rt_reserve(size: usize) -> Result<std::ptr::NonNull<u8>, u32> {
    let sz = if size > 65536 { 960 } else { 512 };
    let layout = std::alloc::Layout::from_size_align(sz, 4096).unwrap();
    let p = unsafe { std::alloc::alloc(layout) };
    std::ptr::NonNull::new(p).ok_or(12)
}

macro_rules! arenas {
    ($arena:ident, $frame:ident, $pool:ident) => {
        let arena_store = Arena::new(100_000).unwrap();
        let $arena: &'static Arena = unsafe { &*(&arena_store as *const Arena) };
        let frame_store = Arena::new(1).unwrap();
        let $frame: &'static Arena = unsafe { &*(&frame_store as *const Arena) };
        // pools over small stack buffers (tracked field-sensitively: recycled slot addresses stay concrete)
        let mut slots0 = [0u64; 2];
        let mut slots1 = [0u64; 4];
        let mut idx0 = [0u32; 2];
        let mut idx1 = [0u32; 2];
        let pool_store = PoolSet::verif_over($arena, slots0.as_mut_ptr().cast(), idx0.as_mut_ptr(), slots1.as_mut_ptr().cast(), idx1.as_mut_ptr());
        let $pool: &'static PoolSet<'static> = unsafe { &*(&pool_store as *const PoolSet<'static>) };
    };
}

fn two_bytes() -> [u8; 2] {
    let s: [u8; 2] = [kani::any(), kani::any()];
    kani::assume(s[0] < 128 && s[1] < 128);
    s
}
fn as_text(b: &[u8; 2]) -> &'static str {
    unsafe { std::mem::transmute::<&str, &'static str>(std::str::from_utf8_unchecked(b)) }
}
fn same2(c: &ArenaCow<'_>, s: &[u8; 2]) -> bool {
    let b = c.as_bytes();
    b.len() == 2 && b[0] == s[0] && b[1] == s[1]
}

// ---- 2.a ArenaCow::promote, one instance per provenance class -----------------------------------
fn promote_class(class: u8) {
    arenas!(arena, frame, pool);
    let s = two_bytes();
    let text = as_text(&s);
    // storage in every region
    let on_frame = ArenaString::from_str(frame, text);
    let on_persistent = ArenaString::from_str(arena, text);
    let in_slot = pool.alloc_str(text);
    let alias = |x: &ArenaString<'static>| unsafe { std::mem::transmute::<&str, &'static str>(x.as_str()) };
    let (input, in_ptr): (ArenaCow<'static>, *const u8) = match class {
        0 => (ArenaCow::Borrowed(text), text.as_ptr()),
        1 => (ArenaCow::Borrowed(alias(&on_persistent)), on_persistent.as_ptr()),
        2 => (ArenaCow::Borrowed(alias(&in_slot)), in_slot.as_ptr()),
        3 => (ArenaCow::Borrowed(alias(&on_frame)), on_frame.as_ptr()),
        4 => (ArenaCow::Owned(ArenaString::from_str(frame, text)), std::ptr::null()),
        5 => {
            let own = pool.alloc_str(text);
            let p = own.as_ptr();
            (ArenaCow::Owned(own), p)
        }
        _ => {
            let own = ArenaString::from_str(arena, text);
            let p = own.as_ptr();
            (ArenaCow::Owned(own), p)
        }
    };
    let out = input.promote(pool, frame);
    let op = out.as_bytes().as_ptr();
    assert!(same2(&out, &s), "bytes-preserved: promote keeps the string's bytes");
    assert!(!frame.contains_ptr(op), "no-frame-alias: a promoted string never lives in the frame arena");
    match class {
        0 | 1 => assert!(out.is_borrowed() && op == in_ptr, "pass-through: source text and persistent-arena aliases are returned unchanged"),
        2 => {
            assert!(out.is_owned() && op != in_ptr, "own-slot: an alias of a pool slot is copied into storage of its own");
            assert!(pool.contains(op) || arena.contains_ptr(op), "own-slot: the copy lives in a pool slot or in persistent memory");
        }
        3 | 4 => assert!(out.is_owned(), "copied: frame data is copied out"),
        _ => assert!(out.is_owned() && op == in_ptr, "pass-through: an owned persistent string is returned unchanged (no double promote)"),
    }
    kani::cover!(true, "promote reached");
    std::mem::forget(out);
    std::mem::forget(on_frame);
    std::mem::forget(on_persistent);
    std::mem::forget(in_slot);
}
macro_rules! promote_class {
    ($name:ident, $class:literal) => {
        rt_proof! { #[kani::unwind(22)] fn $name() { promote_class($class) } }
    };
}

// ---- 2.c overwrite_slot with a value that may alias the slot's own storage --------------------------
fn overwrite_class(class: u8) {
    arenas!(arena, frame, pool);
    let s = two_bytes();
    let t = two_bytes();
    let mut slot = Value::Str(ArenaCow::Owned(pool.alloc_str(as_text(&s))));
    let slot_ptr = match &slot { Value::Str(c) => c.as_bytes().as_ptr(), _ => std::ptr::null() };
    let (val, want): (Value<'static>, [u8; 2]) = match class {
        // `x get x`: reading x yields a Borrowed alias of x's own slot
        0 => (match &slot { Value::Str(c) => Value::Str(c.clone()), _ => Value::Null }, s),
        // a fresh temporary on the frame (`x get x add ""`, `x get f()`)
        1 => (Value::Str(ArenaCow::Owned(ArenaString::from_str(frame, as_text(&t)))), t),
        // a source literal
        _ => (Value::Str(ArenaCow::Borrowed(as_text(&t))), t),
    };
    Runtime::overwrite_slot(&mut slot, val, true, pool, frame);
    match &slot {
        Value::Str(c) => {
            assert!(same2(c, &want), "bytes-preserved: the slot holds the assigned value's bytes");
            assert!(!frame.contains_ptr(c.as_bytes().as_ptr()), "no-frame-alias: a stored value never lives in the frame arena");
        }
        _ => assert!(false, "kind: the slot holds a string"),
    }
    kani::cover!(true, "overwrite reached");
    std::mem::forget(slot);
}
macro_rules! overwrite_class {
    ($name:ident, $class:literal) => {
        rt_proof! { #[kani::unwind(22)] fn $name() { overwrite_class($class) } }
    };
}
