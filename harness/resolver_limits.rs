// C18 harnesses — child module of `resolver`: the over-limit path of emit_analysis_warnings.
#![allow(dead_code, unused, static_mut_refs)]
use super::*;
use crate::analysis::cfg::{CfgProgram, ProgramCounts};
use crate::analysis::limits::{AnalysisCaps, AnalysisLimit, DEFAULT_CAPS};
use crate::syntax::parser::Block;

static mut TRIP: bool = false;
static mut CAPS_SEEN: Option<AnalysisCaps> = None;
static mut OBSERVED: u64 = 0;
static mut LIMIT: u64 = 0;

/// Contract stub: records the caps the call site passes and returns an arbitrary verdict.
fn first_exceeded_limit_any(
    _facts: &ProgramFacts<'_, '_>,
    _counts: &ProgramCounts<'_>,
    caps: AnalysisCaps,
) -> Option<AnalysisLimit> {
    unsafe {
        CAPS_SEEN = Some(caps);
        if TRIP {
            Some(AnalysisLimit { metric: "statements", observed: OBSERVED, limit: LIMIT })
        } else {
            None
        }
    }
}

fn count_program_empty<'ast, 'arena>(
    _facts: &ProgramFacts<'ast, 'ast>,
    arena: &'arena Arena,
) -> ProgramCounts<'arena> {
    ProgramCounts {
        function_blocks: Vec::new_in(arena),
        function_ops: Vec::new_in(arena),
        total_blocks: 0,
        total_ops: 0,
        total_statements: 0,
    }
}

/// The first expensive pass.  Reaching it on the over-limit path is the violation;
/// on the within-limits path reaching it is the witness that the analyses run.
fn build_program_marker<'ast, 'arena>(
    _facts: &ProgramFacts<'ast, 'ast>,
    _counts: &ProgramCounts<'_>,
    _arena: &'arena Arena,
) -> CfgProgram<'ast, 'arena> {
    kani::cover!(unsafe { TRIP }, "never: CFG construction reached although a limit was exceeded");
    kani::cover!(unsafe { !TRIP }, "analyses run when no limit is exceeded");
    kani::assume(false);
    unreachable!()
}

#[kani::proof]
#[kani::stub(crate::sys::unix::UnixVirtualMemory::reserve, crate::verif_common::reserve_2k)]
#[kani::stub(crate::sys::unix::UnixVirtualMemory::commit, crate::verif_common::commit_ok)]
#[kani::stub(crate::sys::unix::UnixVirtualMemory::decommit, crate::verif_common::vm_nop)]
#[kani::stub(crate::sys::unix::UnixVirtualMemory::release, crate::verif_common::vm_nop)]
#[kani::stub(crate::analysis::limits::first_exceeded_limit, first_exceeded_limit_any)]
#[kani::stub(crate::analysis::cfg::count_program, count_program_empty)]
#[kani::stub(crate::analysis::cfg::build_program_with_counts, build_program_marker)]
#[kani::stub(core::fmt::write, crate::verif_common::fmt_write)]
#[kani::unwind(4)]
fn over_limit_skip_path() {
    let arena = Arena::new(1).unwrap();
    let arena: &'static Arena = unsafe { &*(&arena as *const Arena) };
    static EMPTY: [StmtRef<'static>; 0] = [];
    let root: &'static Block<'static> = Box::leak(Box::new(Block { stmts: &EMPTY, span: Default::default() }));
    let mut r = Resolver::new(arena);
    let rf = r.facts.push_root_function(root);
    r.current_owner = rf;
    unsafe {
        TRIP = kani::any();
        OBSERVED = kani::any();
        LIMIT = kani::any();
    }
    let before = r.errors.diagnostics.len();
    r.emit_analysis_warnings();
    let seen = unsafe { CAPS_SEEN.unwrap() };
    let d = DEFAULT_CAPS;
    assert!(
        seen.max_functions == d.max_functions && seen.max_locals == d.max_locals
            && seen.max_scopes == d.max_scopes && seen.max_statements == d.max_statements
            && seen.max_total_ops == d.max_total_ops && seen.max_ops_per_function == d.max_ops_per_function
            && seen.max_total_blocks == d.max_total_blocks
            && seen.max_blocks_per_function == d.max_blocks_per_function
            && seen.max_direct_user_calls == d.max_direct_user_calls
            && seen.max_summary_events == d.max_summary_events
            && seen.max_liveness_events == d.max_liveness_events,
        "defaults: the resolver checks the program against DEFAULT_CAPS"
    );
    // only the over-limit path returns (the other one is cut at the first expensive pass)
    assert!(unsafe { TRIP }, "cut: only the over-limit path reaches this point");
    assert!(r.optimization_plan.is_none(), "no-plan: exceeding a limit leaves no optimisation plan");
    assert!(r.errors.diagnostics.len() == before + 1, "one-warning: exactly one diagnostic is emitted");
    let diag = &r.errors.diagnostics[before];
    assert!(diag.severity == Severity::Warning, "one-warning: it is a warning, not an error");
    assert!(!r.errors.has_errors(), "accepted: the program is still accepted");
    assert!(diag.code.len() == 8, "one-warning: diagnostic code is `analysis`");
    kani::cover!(true, "over-limit path completed");
    std::mem::forget(r);
}
