// C13 harnesses for `builtins::string` (slice, len, split) and `builtins::array::join`.
#![allow(dead_code, unused)]
use super::*;

/// Text with a concrete character layout W (widths 1 or 2) and symbolic bytes.
fn any_layout<const C: usize, const B: usize>(widths: [usize; C]) -> [u8; B] {
    let mut out = [0u8; B];
    let mut o = 0;
    let mut c = 0;
    while c < C {
        if widths[c] == 1 {
            let a: u8 = kani::any();
            kani::assume(a < 0x80);
            out[o] = a;
            o += 1;
        } else {
            let a: u8 = kani::any();
            let b: u8 = kani::any();
            kani::assume(a >= 0xC2 && a <= 0xDF && b >= 0x80 && b <= 0xBF);
            out[o] = a;
            out[o + 1] = b;
            o += 2;
        }
        c += 1;
    }
    assert!(o == B);
    out
}

/// Specification of one slice bound on a string of `len` characters, written with
/// float comparisons only (no saturating casts, no signed addition).
fn spec_bound(x: f64, len: usize) -> usize {
    let fl = x.floor();
    if fl.is_nan() {
        return 0; // `as` conversion of NaN is 0, which the language documents as position 0
    }
    let lf = len as f64;
    if fl < 0.0 {
        if fl <= -lf { 0 } else { len - ((-fl) as usize) }
    } else if fl >= lf {
        len
    } else {
        fl as usize
    }
}

fn slice_spec<const C: usize, const B: usize>(widths: [usize; C]) {
    let arena = Arena::new(1).unwrap();
    let bytes = any_layout::<C, B>(widths);
    let s = unsafe { std::str::from_utf8_unchecked(&bytes) };
    let start: f64 = kani::any();
    let end: f64 = kani::any();
    let got = StringBuiltin::slice(s, start, end, &arena);
    // character boundaries of the concrete layout
    let mut off = [0usize; 8];
    let mut c = 0;
    while c < C {
        off[c + 1] = off[c] + widths[c];
        c += 1;
    }
    let (a, b) = (spec_bound(start, C), spec_bound(end, C));
    let gb = got.as_bytes();
    if a >= b {
        assert!(gb.is_empty(), "slice-empty: start at or after end selects nothing");
    } else {
        assert!(gb.len() == off[b] - off[a], "slice-length: selects characters [start, end)");
        let mut i = 0;
        while i < gb.len() {
            assert!(gb[i] == bytes[off[a] + i], "slice-bytes: selects characters [start, end)");
            i += 1;
        }
    }
    assert!(StringBuiltin::len(s) == C as f64, "len: counts characters");
    kani::cover!(C == 0 || (start < 0.0 && a < b), "negative start selecting something");
    kani::cover!(start.is_nan(), "NaN bound");
    kani::cover!(C == 0 || (end > 1e300 && a < b), "huge end clamped");
    kani::cover!(C == 0 || (start != start.floor() && a < b), "fractional bound");
    kani::cover!(end == f64::NEG_INFINITY, "negative infinity");
    std::mem::forget(got);
    std::mem::forget(arena);
}

macro_rules! slice_spec {
    ($name:ident, $c:literal, $b:literal, $w:expr, $unw:literal) => {
        #[kani::proof]
        #[kani::stub(crate::sys::unix::UnixVirtualMemory::reserve, crate::verif_common::reserve_512)]
        #[kani::stub(crate::sys::unix::UnixVirtualMemory::commit, crate::verif_common::commit_ok)]
        #[kani::stub(crate::sys::unix::UnixVirtualMemory::decommit, crate::verif_common::vm_nop)]
        #[kani::stub(crate::sys::unix::UnixVirtualMemory::release, crate::verif_common::vm_nop)]
        #[kani::stub(crate::arena::string::ArenaString::with_capacity_in, crate::arena::string::ArenaString::verif_with_capacity_in)]
        #[kani::stub(crate::arena::string::ArenaString::new_in, crate::arena::string::ArenaString::verif_new_in)]
        #[kani::stub(crate::arena::string::ArenaString::push_str, crate::arena::string::ArenaString::verif_push_str)]
        #[kani::stub(crate::arena::string::ArenaString::push, crate::arena::string::ArenaString::verif_push)]
        #[kani::stub(core::str::count::count_chars, crate::verif_common::count_chars)]
        #[kani::unwind($unw)]
        fn $name() {
            slice_spec::<$c, $b>($w)
        }
    };
}

// ---- 13.e join(split(s, p), p) == s ----------------------------------------------------
fn split_join<const S: usize, const P: usize>() {
    use crate::arena::ArenaCow;
    use crate::builtins::ArrayBuiltin;
    use crate::runtime::Value;
    let arena = Arena::new(1).unwrap();
    let arena: &'static Arena = unsafe { &*(&arena as *const Arena) };
    let mut sb = [0u8; S];
    let mut pb = [0u8; P];
    let mut i = 0;
    while i < S {
        let b: u8 = kani::any();
        kani::assume(b == b'a' || b == b',');
        sb[i] = b;
        i += 1;
    }
    let mut i = 0;
    while i < P {
        let b: u8 = kani::any();
        kani::assume(b == b'a' || b == b',');
        pb[i] = b;
        i += 1;
    }
    let (s, p) = unsafe { (std::str::from_utf8_unchecked(&sb), std::str::from_utf8_unchecked(&pb)) };
    let mut parts: Vec<Value<'static>, &'static Arena> = Vec::with_capacity_in(S + 2, arena);
    let mut it = StringBuiltin::split(s, p, arena);
    let mut n = 0;
    while let Some(piece) = it.next() {
        parts.push(Value::Str(ArenaCow::Owned(piece)));
        n += 1;
    }
    let joined = ArrayBuiltin::join(&parts, p, arena);
    let jb = joined.as_bytes();
    assert!(jb.len() == S, "split-join: length restored");
    let mut i = 0;
    while i < S {
        assert!(jb[i] == sb[i], "split-join: bytes restored");
        i += 1;
    }
    kani::cover!(n > 1, "separator present");
    std::mem::forget(joined);
    std::mem::forget(parts);
}

macro_rules! split_join {
    ($name:ident, $s:literal, $p:literal, $unw:literal) => {
        #[kani::proof]
        #[kani::stub(crate::sys::unix::UnixVirtualMemory::reserve, crate::verif_common::reserve_1k)]
        #[kani::stub(crate::sys::unix::UnixVirtualMemory::commit, crate::verif_common::commit_ok)]
        #[kani::stub(crate::sys::unix::UnixVirtualMemory::decommit, crate::verif_common::vm_nop)]
        #[kani::stub(crate::sys::unix::UnixVirtualMemory::release, crate::verif_common::vm_nop)]
        #[kani::stub(core::fmt::write, crate::verif_common::fmt_write)]
        #[kani::stub(crate::arena::string::ArenaString::with_capacity_in, crate::arena::string::ArenaString::verif_with_capacity_in)]
        #[kani::stub(crate::arena::string::ArenaString::new_in, crate::arena::string::ArenaString::verif_new_in)]
        #[kani::stub(crate::arena::string::ArenaString::push_str, crate::arena::string::ArenaString::verif_push_str)]
        #[kani::stub(crate::arena::string::ArenaString::push, crate::arena::string::ArenaString::verif_push)]
        #[kani::unwind($unw)]
        fn $name() {
            split_join::<$s, $p>()
        }
    };
}

// ---- 13.e' ArrayBuiltin::join alone: elements separated by exactly one separator each ---------------
// (std's `str::split` searcher did not fit; the join half of the split/join round trip does.)
fn join_spec<const K: usize>() {
    use crate::arena::ArenaCow;
    use crate::builtins::ArrayBuiltin;
    use crate::runtime::Value;
    let arena_store = Arena::new(1).unwrap();
    let arena: &'static Arena = unsafe { &*(&arena_store as *const Arena) };
    // K elements, each the empty string or one symbolic ASCII byte; separator of one symbolic byte
    let mut bytes = [0u8; K];
    let mut empty = [false; K];
    let mut parts: Vec<Value<'static>, &'static Arena> = Vec::with_capacity_in(K, arena);
    static EMPTY: &str = "";
    let mut storage = [[0u8; 1]; K];
    let mut i = 0;
    while i < K {
        let b: u8 = kani::any();
        kani::assume(b < 0x80);
        bytes[i] = b;
        storage[i][0] = b;
        empty[i] = kani::any();
        i += 1;
    }
    let mut i = 0;
    while i < K {
        let s: &'static str = if empty[i] { EMPTY } else { unsafe { std::mem::transmute(std::str::from_utf8_unchecked(&storage[i])) } };
        parts.push(Value::Str(ArenaCow::Borrowed(s)));
        i += 1;
    }
    let sepb = [{ let b: u8 = kani::any(); kani::assume(b < 0x80); b }];
    let sep = unsafe { std::str::from_utf8_unchecked(&sepb) };
    let out = ArrayBuiltin::join(&parts, sep, arena);
    // definition: e0 sep e1 sep ... e(K-1)
    let mut want = [0u8; 16];
    let mut w = 0;
    let mut i = 0;
    while i < K {
        if i > 0 {
            want[w] = sepb[0];
            w += 1;
        }
        if !empty[i] {
            want[w] = bytes[i];
            w += 1;
        }
        i += 1;
    }
    let ob = out.as_bytes();
    assert!(ob.len() == w, "join-length: one separator between every two elements, also around empty ones");
    let mut i = 0;
    while i < w {
        assert!(ob[i] == want[i], "join-bytes: elements in order with the separator between them");
        i += 1;
    }
    kani::cover!(K < 2 || (empty[0] && !empty[1]), "leading empty element");
    kani::cover!(K < 2 || (!empty[0] && empty[K - 1]), "trailing empty element");
    std::mem::forget(out);
    std::mem::forget(parts);
}
macro_rules! join_spec {
    ($name:ident, $k:literal, $unw:literal) => {
        #[kani::proof]
        #[kani::stub(crate::sys::unix::UnixVirtualMemory::reserve, crate::verif_common::reserve_960)]
        #[kani::stub(crate::sys::unix::UnixVirtualMemory::commit, crate::verif_common::commit_ok)]
        #[kani::stub(crate::sys::unix::UnixVirtualMemory::decommit, crate::verif_common::vm_nop)]
        #[kani::stub(crate::sys::unix::UnixVirtualMemory::release, crate::verif_common::vm_nop)]
        #[kani::stub(core::fmt::write, crate::verif_common::fmt_write)]
        #[kani::stub(crate::arena::string::ArenaString::with_capacity_in, crate::arena::string::ArenaString::verif_with_capacity_in)]
        #[kani::stub(crate::arena::string::ArenaString::push_str, crate::arena::string::ArenaString::verif_push_str)]
        #[kani::unwind($unw)]
        fn $name() { join_spec::<$k>() }
    };
}
