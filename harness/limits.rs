// C18 harnesses — child module of `analysis::limits`.
#![allow(dead_code, unused)]
use super::*;
use crate::analysis::cfg::ProgramCounts;
use crate::analysis::facts::{FunctionInfo, ProgramFacts};
use crate::arena::Arena;
use crate::verif_common::vm_proof;

fn any_caps() -> AnalysisCaps {
    AnalysisCaps {
        max_functions: kani::any(),
        max_locals: kani::any(),
        max_scopes: kani::any(),
        max_statements: kani::any(),
        max_total_ops: kani::any(),
        max_ops_per_function: kani::any(),
        max_total_blocks: kani::any(),
        max_blocks_per_function: kani::any(),
        max_direct_user_calls: kani::any(),
        max_summary_events: kani::any(),
        max_liveness_events: kani::any(),
    }
}

fn metric_eq(a: &str, b: &str) -> bool {
    if a.len() != b.len() {
        return false;
    }
    let (a, b) = (a.as_bytes(), b.as_bytes());
    let mut i = 0;
    while i < a.len() {
        if a[i] != b[i] {
            return false;
        }
        i += 1;
    }
    true
}

/// K = number of functions with per-function CFG counts (0..2); every length and count symbolic.
fn limit_exact<const K: usize>() {
    let arena = Arena::new(1).unwrap();
    let arena: &'static Arena = unsafe { &*(&arena as *const Arena) };
    let mut facts = ProgramFacts::new(arena);
    let (nf, nl, ns, nst, nc): (u32, u32, u32, u32, u32) =
        (kani::any(), kani::any(), kani::any(), kani::any(), kani::any());
    // with per-function records the functions table must really hold them: its length is K
    // then (caps stay symbolic, so the `functions` limit can still trip); K == 0 leaves it free
    kani::assume(K == 0 || nf as usize == K);
    // K real function records whose local ranges lie inside the locals table
    let mut lens = [0u32; 2];
    let mut fv: Vec<FunctionInfo<'static>, &'static Arena> = Vec::with_capacity_in(K.max(1), arena);
    let mut k = 0;
    while k < K {
        let start: u32 = kani::any();
        let len: u32 = kani::any();
        kani::assume(start as u64 + len as u64 <= nl as u64);
        unsafe {
            let p = fv.as_mut_ptr().add(k);
            (&raw mut (*p).locals_start).write(start);
            (&raw mut (*p).locals_len).write(len);
        }
        lens[k] = len;
        k += 1;
    }
    unsafe {
        fv.set_len(nf as usize);
        facts.functions = fv;
        // only the lengths of these tables are read by the limit check
        facts.locals.set_len(nl as usize);
        facts.scopes.set_len(ns as usize);
        facts.stmt_effects.set_len(nst as usize);
        facts.user_calls.set_len(nc as usize);
    }
    let mut function_blocks = Vec::with_capacity_in(K.max(1), arena);
    let mut function_ops = Vec::with_capacity_in(K.max(1), arena);
    let mut blocks = [0u32; 2];
    let mut ops = [0u32; 2];
    let mut k = 0;
    while k < K {
        blocks[k] = kani::any();
        ops[k] = kani::any();
        function_blocks.push(blocks[k]);
        function_ops.push(ops[k]);
        k += 1;
    }
    let counts = ProgramCounts {
        function_blocks,
        function_ops,
        total_blocks: kani::any(),
        total_ops: kani::any(),
        total_statements: kani::any(),
    };
    let caps = any_caps();

    let got = first_exceeded_limit(&facts, &counts, caps);

    // ---- oracle: the documented staged order, `>` at every boundary ----
    let (f, l) = (nf as u64, nl as u64);
    let summary = f.saturating_mul(f.saturating_add(l.saturating_mul(2) + 2));
    let mut liveness = 0u64;
    let mut max_ops = 0u32;
    let mut max_blocks = 0u32;
    let mut k = 0;
    while k < K {
        let fe = (blocks[k] as u64).saturating_mul(2).saturating_add(ops[k] as u64);
        liveness = liveness.saturating_add(fe.saturating_mul(lens[k] as u64));
        if ops[k] > max_ops {
            max_ops = ops[k];
        }
        if blocks[k] > max_blocks {
            max_blocks = blocks[k];
        }
        k += 1;
    }
    let want: Option<(&'static str, u64, u64)> = if nf > caps.max_functions {
        Some(("functions", nf as u64, caps.max_functions as u64))
    } else if nl > caps.max_locals {
        Some(("locals", nl as u64, caps.max_locals as u64))
    } else if ns > caps.max_scopes {
        Some(("scopes", ns as u64, caps.max_scopes as u64))
    } else if nst > caps.max_statements {
        Some(("statements", nst as u64, caps.max_statements as u64))
    } else if counts.total_ops > caps.max_total_ops {
        Some(("cfg ops", counts.total_ops as u64, caps.max_total_ops as u64))
    } else if K > 0 && max_ops > caps.max_ops_per_function {
        Some(("ops in one function", max_ops as u64, caps.max_ops_per_function as u64))
    } else if counts.total_blocks > caps.max_total_blocks {
        Some(("cfg blocks", counts.total_blocks as u64, caps.max_total_blocks as u64))
    } else if K > 0 && max_blocks > caps.max_blocks_per_function {
        Some(("blocks in one function", max_blocks as u64, caps.max_blocks_per_function as u64))
    } else if nc > caps.max_direct_user_calls {
        Some(("direct user calls", nc as u64, caps.max_direct_user_calls as u64))
    } else if summary > caps.max_summary_events {
        Some(("summary events", summary, caps.max_summary_events))
    } else if liveness > caps.max_liveness_events {
        Some(("liveness events", liveness, caps.max_liveness_events))
    } else {
        None
    };
    match (got, want) {
        (None, None) => {}
        (Some(g), Some((metric, observed, limit))) => {
            assert!(metric_eq(g.metric, metric), "staged-order: the first exceeded limit in the documented order is reported");
            assert!(g.observed == observed && g.limit == limit, "report: observed value and limit are the real ones");
            assert!(g.observed > g.limit, "report: observed exceeds the limit");
        }
        (Some(_), None) => assert!(false, "false-trip: a limit is reported although every metric is within its cap"),
        (None, Some(_)) => assert!(false, "missed-trip: a metric exceeds its cap but no limit is reported"),
    }
    kani::cover!(got.is_none(), "under all limits");
    kani::cover!(got.is_none() && nf == caps.max_functions && nst == caps.max_statements, "exactly at two caps: not a trip");
    kani::cover!(matches!(want, Some(("summary events", _, _))), "derived summary bound trips alone");
    kani::cover!(K == 0 || matches!(want, Some(("liveness events", _, _))), "derived liveness bound trips alone");
    kani::cover!(K == 0 || matches!(want, Some(("ops in one function", _, _))), "per-function ops cap trips alone");
    kani::cover!(matches!(want, Some(("direct user calls", _, _))), "call cap trips alone");
    std::mem::forget(facts);
    std::mem::forget(counts);
}

macro_rules! limit_exact {
    ($name:ident, $k:literal) => {
        vm_proof! { reserve_1k, commit_ok;
            #[kani::unwind(26)]
            fn $name() { limit_exact::<$k>() }
        }
    };
}

// 18.b the defaults
#[kani::proof]
fn default_caps_positive() {
    let c = DEFAULT_CAPS;
    assert!(
        c.max_functions > 0 && c.max_locals > 0 && c.max_scopes > 0 && c.max_statements > 0
            && c.max_total_ops > 0 && c.max_ops_per_function > 0 && c.max_total_blocks > 0
            && c.max_blocks_per_function > 0 && c.max_direct_user_calls > 0
            && c.max_summary_events > 0 && c.max_liveness_events > 0,
        "defaults: every default cap is positive"
    );
    // the cheap caps must be able to admit a program that the derived caps then judge
    assert!(c.max_ops_per_function <= c.max_total_ops && c.max_blocks_per_function <= c.max_total_blocks,
        "defaults: per-function caps do not exceed the totals");
    kani::cover!(true, "defaults reached");
}
