#!/bin/bash
# tools/seedrun.sh <seed_dir> <PROPERTY> [tier] : run a check against a seeded change.
# The change is applied in a scratch worktree of /repo HEAD (never in /repo itself); the check is
# pointed at it with VERIF_REPO and writes its evidence under a tagged name.
seed=$1; prop=$2; tier=${3:-quick}; label=$(basename $seed)
wt=/tmp/seedwt_$label
git -C /repo worktree remove --force $wt >/dev/null 2>&1; rm -rf $wt
git -C /repo worktree add -q --detach $wt HEAD || exit 2
git -C $wt apply $seed/patch.diff || { echo "$label: patch does not apply"; git -C /repo worktree remove --force $wt; exit 2; }
cd /verif
VERIF_REPO=$wt VERIF_EVIDENCE_TAG=seed_$label ./check $prop $tier > $seed/check_$prop.log 2>&1; rc=$?
git -C /repo worktree remove --force $wt
echo "$label vs $prop/$tier: exit=$rc $(grep -c '^VIOLATION' $seed/check_$prop.log) violation line(s)"
grep '^VIOLATION\|violated in' $seed/check_$prop.log | head -4
