#!/bin/bash
# tools/runall.sh [tier] [ids...] : run the registered checks one after another, log + timing
tier=${1:-quick}; shift
ids=${@:-C01 C02 C04 C06 C07 C09 C10 C11 C12 C13 C15 C16 C17 C18}
cd /verif
for id in $ids; do
  s=$(date +%s)
  ./check $id $tier > /tmp/runall_$id.log 2>&1; rc=$?
  e=$(date +%s)
  echo "$id $tier exit=$rc $((e-s))s $(grep -c 'success' /tmp/runall_$id.log) ok $(grep -c '^KNOWN-FINDING' /tmp/runall_$id.log) known $(grep -c '^INCONCLUSIVE' /tmp/runall_$id.log) inconclusive"
done
