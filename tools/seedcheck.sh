#!/bin/bash
# tools/seedcheck.sh <seed_dir> <label> : confirm a seeded change in a scratch worktree of /repo HEAD
#  1. demo passes on the unchanged tree   2. patch applies and builds
#  3. the existing suite still passes (process:: tests serially: they race on a shared helper otherwise)
#  4. demo fails with the change
# Writes <seed_dir>/confirm.log and prints a one-line verdict.  The worktree is removed afterwards.
seed=$1; label=$2; wt=/tmp/sw_$label
log=$seed/confirm.log; : > $log
git -C /repo worktree remove --force $wt >/dev/null 2>&1; rm -rf $wt
git -C /repo worktree add -q --detach $wt HEAD || { echo "$label: worktree failed"; exit 2; }
cd $wt
demo=$(sed "s#/tmp/mut_[A-Za-z0-9_]*#$wt#g; s#OUT/#$seed/#g" $seed/demo_cmd.txt | head -1)
export CARGO_NET_OFFLINE=true
echo "### demo on unchanged tree: $demo" >> $log
( eval "$demo" ) >> $log 2>&1; d0=$?
if grep -q "test result: FAILED\|FAIL \[" $log; then d0=1; fi
git clean -fdq tests/ >/dev/null 2>&1
git apply $seed/patch.diff >> $log 2>&1 || { echo "$label: PATCH DOES NOT APPLY"; git -C /repo worktree remove --force $wt; exit 1; }
echo "### suite with change" >> $log
cargo nextest run --workspace --no-fail-fast --offline -E 'not binary(process)' > $wt/suite.log 2>&1; s1=$?
tail -5 $wt/suite.log >> $log
cargo nextest run --workspace --no-fail-fast --offline -j1 -E 'binary(process)' > $wt/suite_p.log 2>&1; s2=$?
tail -5 $wt/suite_p.log >> $log
echo "### demo with change" >> $log
mark=$(wc -l < $log)
( eval "$demo" ) >> $log 2>&1; d1=$?
if tail -n +$mark $log | grep -q "test result: FAILED\|FAIL \[\|panicked"; then d1=1; fi
cd /; git -C /repo worktree remove --force $wt
echo "$label: demo_unchanged_rc=$d0 suite_rc=$s1 process_serial_rc=$s2 demo_changed_rc=$d1" | tee -a $log
