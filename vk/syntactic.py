"""Auxiliary syntactic checks on /repo's current source.  They are NOT solver results: they back the
assumptions under which a solver-decided obligation carries over to a part of the code that is not
encoded.  A failed syntactic check makes the property's check inconclusive (exit 2)."""
import os
import re

from .registry import Inconclusive


def _read(stage, rel):
    return open(os.path.join(stage.crate, rel)).read()


def parser_reads_tokens_only(stage, prop):
    """C10: the parser sees the source only through the token iterator (Lexer::next) and the lexer's
    diagnostics, so identical token streams mean identical parses."""
    src = _read(stage, "src/syntax/parser.rs")
    uses = set(re.findall(r"\blexer\.(\w+)", src))
    allowed = {"next", "errors"}
    extra = uses - allowed
    if extra:
        raise Inconclusive("parser.rs reads the lexer through %s (only %s are token-level); the layout argument of C10 no longer applies"
                           % (sorted(extra), sorted(allowed)))
    return ["syntactic: parser.rs uses the lexer only through %s (token iterator + diagnostics)" % sorted(uses)]


def process_gate_order(stage, prop):
    """C15: in Runtime::eval_process_command_call the host-policy test precedes validation, which
    precedes the spawn."""
    src = _read(stage, "src/runtime.rs")
    m = re.search(r"fn eval_process_command_call\(.*?\n    \}\n", src, re.S)
    if not m:
        raise Inconclusive("Runtime::eval_process_command_call not found")
    body = m.group(0)
    a = body.find("allow_process")
    b = body.find(".validate(")
    c = body.find("process::run(")
    if not (0 <= a < b < c):
        raise Inconclusive("eval_process_command_call: policy test / validate / run are not in that order (%d, %d, %d)" % (a, b, c))
    deny = body[a:b]
    if "ProcessDenied" not in deny or "return Err" not in deny:
        raise Inconclusive("eval_process_command_call: the policy test does not return ProcessDenied before validation")
    return ["syntactic: eval_process_command_call tests host_policy.allow_process (returning ProcessDenied), then validates, then spawns"]


def read_line_is_thin_wrapper(stage, prop):
    """C17: UnixStdin::read_line does nothing but print the prompt, flush and hand the locked,
    buffered stdin to the kernel read_line_from (which is what the harness decides)."""
    src = _read(stage, "src/sys/unix.rs")
    m = re.search(r"impl Stdin for UnixStdin \{\s*fn read_line<'a>\([^)]*\)[^{]*\{(.*?)\n    \}\n\}", src, re.S)
    if not m:
        raise Inconclusive("UnixStdin::read_line not found")
    body = [l.strip() for l in m.group(1).splitlines() if l.strip() and not l.strip().startswith("//")]
    want = ['print!("{prompt}");', "io::stdout().flush()?;", "read_line_from(&mut io::stdin().lock(), arena)"]
    if body != want:
        raise Inconclusive("UnixStdin::read_line is no longer the thin wrapper the C17 claim assumes (prompt, flush, "
                           "read_line_from(stdin lock)); its body has logic the kernel harness does not cover: %r" % (body,))
    return ["syntactic: UnixStdin::read_line = prompt, flush, read_line_from(&mut io::stdin().lock(), arena)"]
