"""Native replay: builds /verif/replay against the staged copy of /repo and runs cases.

The replay crate links the *real* library (no cfg(kani), no stubs) with the
repository's own toolchain, in the dev profile and in --release.
"""
import json
import os
import shutil
import subprocess

from .stage import Stage, VERIF

_built = {}


def build(stage, release=False):
    key = (stage.root, release)
    if key in _built:
        return _built[key]
    rdir = os.path.join(stage.root, "replay")
    if not os.path.exists(rdir):
        shutil.copytree(os.path.join(VERIF, "replay"), rdir)
        with open(os.path.join(rdir, "Cargo.toml"), "w") as f:
            f.write('[package]\nname = "vreplay"\nversion = "0.0.0"\nedition = "2024"\npublish = false\n\n'
                    '[workspace]\n\n[dependencies]\nnaijascript = { path = "%s" }\n\n'
                    '[profile.release]\ndebug-assertions = false\noverflow-checks = false\n' % stage.crate)
        shutil.copy(os.path.join(stage.crate, "rust-toolchain.toml"), rdir)
        lock = os.path.join(stage.crate, "Cargo.lock")
        if os.path.exists(lock):
            shutil.copy(lock, rdir)
    env = dict(os.environ)
    env["CARGO_NET_OFFLINE"] = "true"
    env["CARGO_TERM_COLOR"] = "never"
    cmd = ["cargo", "build", "--offline"] + (["--release"] if release else [])
    p = subprocess.run(cmd, cwd=rdir, env=env, stdout=subprocess.PIPE, stderr=subprocess.STDOUT, text=True)
    if p.returncode != 0:
        raise RuntimeError("replay crate build failed:\n" + p.stdout[-3000:])
    binp = os.path.join(rdir, "target", "release" if release else "debug", "vreplay")
    _built[key] = binp
    return binp


def run_case(stage, args, release=False, stdin=None, timeout=30):
    """Returns (rc, output).  rc < 0: killed by a signal; 124: timeout."""
    binp = build(stage, release)
    try:
        p = subprocess.run([binp] + list(args), input=stdin, stdout=subprocess.PIPE, stderr=subprocess.STDOUT,
                           timeout=timeout)
        return p.returncode, p.stdout.decode(errors="replace")
    except subprocess.TimeoutExpired as e:
        return 124, (e.stdout or b"").decode(errors="replace") + "\n[timeout]"


def run_script(stage, text, mode="analysis", release=False, stdin=None, timeout=30):
    path = os.path.join(stage.root, "replay_script.ns")
    with open(path, "wb") as f:
        f.write(text if isinstance(text, bytes) else text.encode())
    return run_case(stage, ["script", path, mode], release=release, stdin=stdin, timeout=timeout)


def crashed(rc):
    return rc < 0 or rc in (101, 134, 139, 124)


# ---------------------------------------------------------------------------
# known findings: each entry's "replay" names a case here
def _known_c11_align(stage, k):
    for rel in (False, True):
        rc, out = run_case(stage, ["c11-align", "16"], release=rel)
        if rc != 1:
            return False, "c11-align rc=%d %s" % (rc, out.strip()[-200:])
    return True, out.strip()


KNOWN = {"c11-align": _known_c11_align}


def confirm_known(stage, prop, h, k):
    fn = KNOWN.get(k.get("replay", {}).get("case"))
    if fn is None:
        return False, "no native case for %s" % (k.get("key"),)
    return fn(stage, k)


# ---------------------------------------------------------------------------
from .replay import Outcome  # noqa: E402


def adapter_c11_align(stage, prop, h, r, unlisted, outdir):
    ok, detail = _known_c11_align(stage, None)
    path = os.path.join(outdir, "%s_%s.json" % (prop.id, h.name))
    json.dump({"property": prop.id, "kind": "native-case", "case": ["c11-align", "16"], "expect_rc": 1,
               "harness": h.name, "detail": detail}, open(path, "w"), indent=1)
    return Outcome(ok, path, detail)


ADAPTERS = {"c11_align": adapter_c11_align}


def replay_file(art, path):
    if art.get("kind") == "native-case":
        stage = Stage(art["property"] + ".replay")
        try:
            worst = 0
            for rel in (False, True):
                rc, out = run_case(stage, art["case"], release=rel, stdin=(art.get("stdin") or "").encode() or None)
                print(out)
                if rc == art.get("expect_rc", 1) or crashed(rc):
                    worst = 1
            if worst:
                print("VIOLATION property=%s replay=%s" % (art["property"], path))
            return worst
        finally:
            stage.cleanup()
    print("unknown replay kind", art.get("kind"))
    return 2
