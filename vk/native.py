"""Native replay: builds /verif/replay against the staged copy of /repo and runs cases.

The replay crate links the *real* library (no cfg(kani), no stubs) with the
repository's own toolchain, in the dev profile and in --release.
"""
import json
import os
import shutil
import subprocess

from .stage import Stage, VERIF

_built = {}


def build(stage, release=False):
    key = (stage.root, release)
    if key in _built:
        return _built[key]
    rdir = os.path.join(stage.root, "replay")
    if not os.path.exists(rdir):
        shutil.copytree(os.path.join(VERIF, "replay"), rdir)
        with open(os.path.join(rdir, "Cargo.toml"), "w") as f:
            f.write('[package]\nname = "vreplay"\nversion = "0.0.0"\nedition = "2024"\npublish = false\n\n'
                    '[workspace]\n\n[dependencies]\nnaijascript = { path = "%s" }\n\n'
                    '[profile.release]\ndebug-assertions = false\noverflow-checks = false\n' % stage.crate)
        shutil.copy(os.path.join(stage.crate, "rust-toolchain.toml"), rdir)
        lock = os.path.join(stage.crate, "Cargo.lock")
        if os.path.exists(lock):
            shutil.copy(lock, rdir)
    env = dict(os.environ)
    env["CARGO_NET_OFFLINE"] = "true"
    env["CARGO_TERM_COLOR"] = "never"
    cmd = ["cargo", "build", "--offline"] + (["--release"] if release else [])
    p = subprocess.run(cmd, cwd=rdir, env=env, stdout=subprocess.PIPE, stderr=subprocess.STDOUT, text=True)
    if p.returncode != 0:
        raise RuntimeError("replay crate build failed:\n" + p.stdout[-3000:])
    binp = os.path.join(rdir, "target", "release" if release else "debug", "vreplay")
    _built[key] = binp
    return binp


def run_case(stage, args, release=False, stdin=None, timeout=30):
    """Returns (rc, output).  rc < 0: killed by a signal; 124: timeout."""
    binp = build(stage, release)
    try:
        p = subprocess.run([binp] + list(args), input=stdin, stdout=subprocess.PIPE, stderr=subprocess.STDOUT,
                           timeout=timeout)
        return p.returncode, p.stdout.decode(errors="replace")
    except subprocess.TimeoutExpired as e:
        return 124, (e.stdout or b"").decode(errors="replace") + "\n[timeout]"


def run_script(stage, text, mode="analysis", release=False, stdin=None, timeout=30):
    path = os.path.join(stage.root, "replay_script.ns")
    with open(path, "wb") as f:
        f.write(text if isinstance(text, bytes) else text.encode())
    return run_case(stage, ["script", path, mode], release=release, stdin=stdin, timeout=timeout)


def crashed(rc):
    return rc < 0 or rc in (101, 134, 139, 124)


# ---------------------------------------------------------------------------
# known findings: each entry's "replay" names a case here
def _known_c11_align(stage, k):
    for rel in (False, True):
        rc, out = run_case(stage, ["c11-align", "16"], release=rel)
        if rc != 1:
            return False, "c11-align rc=%d %s" % (rc, out.strip()[-200:])
    return True, out.strip()


def _interleaved_program(n=70):
    s = "make a get 1\n"
    for i in range(n):
        s += "do f%d(p) start return p end\nshout(f%d(1))\n" % (i, i)
    return s + "make b get 2\nshout(b)\n"


def _known_c07_local_range(stage, k):
    """A valid program whose top-level locals are interleaved with nested-function parameters,
    scaled past one 64-bit word of the liveness bit set: the static checker must not crash."""
    outs = []
    for rel in (False, True):
        rc, out = run_script(stage, _interleaved_program(), release=rel, timeout=60)
        outs.append((rel, rc))
        if not crashed(rc):
            return False, "front end handled the interleaved-locals program (rc=%d)" % rc
    return True, "static checker panics (index out of bounds in liveness) on a valid 142-line program: %s" % (outs,)


KNOWN = {"c11-align": _known_c11_align, "c07-local-range": _known_c07_local_range}


def confirm_known(stage, prop, h, k):
    fn = KNOWN.get(k.get("replay", {}).get("case"))
    if fn is None:
        return False, "no native case for %s" % (k.get("key"),)
    return fn(stage, k)


# ---------------------------------------------------------------------------
from .replay import Outcome  # noqa: E402


def adapter_c11_align(stage, prop, h, r, unlisted, outdir):
    ok, detail = _known_c11_align(stage, None)
    path = os.path.join(outdir, "%s_%s.json" % (prop.id, h.name))
    json.dump({"property": prop.id, "kind": "native-case", "case": ["c11-align", "16"], "expect_rc": 1,
               "harness": h.name, "detail": detail}, open(path, "w"), indent=1)
    return Outcome(ok, path, detail)


def _values(stage, h):
    from . import kani
    vals, test = kani.concrete_playback_values(stage, h.full, h.profile, max(h.timeout, 900), 16)
    return vals, test


def _save(outdir, prop, h, art):
    path = os.path.join(outdir, "%s_%s.json" % (prop.id, h.name))
    art.update({"property": prop.id, "harness": h.name})
    json.dump(art, open(path, "w"), indent=1)
    return path


def _native_case(stage, case, timeout=15):
    """Runs a case in dev and release; reproduced if either shows rc==1, a crash or a hang."""
    outs = []
    hit = False
    for rel in (False, True):
        rc, out = run_case(stage, case, release=rel, timeout=timeout)
        outs.append({"release": rel, "rc": rc, "output": out[-1500:]})
        if rc == 1 or crashed(rc):
            hit = True
    return hit, outs


def adapter_c13_find(stage, prop, h, r, unlisted, outdir):
    """Harness draws hay bytes then needle bytes (one u8 each), in that order."""
    vals, _t = _values(stage, h)
    hn, nn = h.shape["hay"], h.shape["needle"]
    if not vals or len(vals) < hn + nn:
        return Outcome(False, "", "no concrete values from the solver")
    hay = bytes(v[0] for v in vals[:hn])
    nd = bytes(v[0] for v in vals[hn:hn + nn])
    case = ["c13-find", hay.hex(), nd.hex()]
    hit, outs = _native_case(stage, case)
    path = _save(outdir, prop, h, {"kind": "native-case", "case": case, "expect_rc": 1, "runs": outs,
                                   "hay": hay.decode("latin1"), "needle": nd.decode("latin1")})
    return Outcome(hit, path, outs[0]["output"].strip()[-300:] if hit else
                   "real find() agrees with std on the counterexample (it depends on a contract stub)")


def adapter_c13_replace(stage, prop, h, r, unlisted, outdir):
    """Harness draws hay, from, to bytes (one u8 each, in that order)."""
    vals, _t = _values(stage, h)
    hn, fn, tn = h.shape["hay"], h.shape["from"], h.shape["to"]
    if vals is None or len(vals) < hn + fn + tn:
        return Outcome(False, "", "no concrete values from the solver")
    b = bytes(v[0] for v in vals[:hn + fn + tn])
    case = ["c13-replace", b[:hn].hex(), b[hn:hn + fn].hex(), b[hn + fn:].hex()]
    hit, outs = _native_case(stage, case)
    path = _save(outdir, prop, h, {"kind": "native-case", "case": case, "expect_rc": 1, "runs": outs})
    return Outcome(hit, path, outs[0]["output"].strip()[-300:])


def adapter_c07_text(stage, prop, h, r, unlisted, outdir):
    """Scanner harnesses draw the N text bytes first.  The counterexample text is lexed natively
    from the start; the suffix from the harness cursor is tried as a text of its own as well
    (the per-routine harness starts at an arbitrary cursor)."""
    vals, _t = _values(stage, h)
    n, cur = h.shape["text_bytes"], h.shape.get("cursor", 0)
    if vals is None or len(vals) < n:
        return Outcome(False, "", "no concrete values from the solver")
    text = bytes(v[0] for v in vals[:n])
    tried = []
    for cand in (text, text[cur:]):
        case = ["c07-lex", cand.hex()]
        hit, outs = _native_case(stage, case)
        tried.append({"case": case, "runs": outs})
        if hit:
            path = _save(outdir, prop, h, {"kind": "native-case", "case": case, "expect_rc": 1, "runs": outs,
                                           "text": cand.decode("utf-8", "replace")})
            return Outcome(True, path, outs[0]["output"].strip()[-300:])
    path = _save(outdir, prop, h, {"kind": "native-case", "case": tried[0]["case"], "expect_rc": 1, "tried": tried})
    return Outcome(False, path, "the real lexer handles the counterexample text (cursor not reachable by lexing from 0?)")


def adapter_c10_layout(stage, prop, h, r, unlisted, outdir):
    """Renders the relational counterexample as two complete layouts and lexes both natively."""
    import re as _re
    vals, _t = _values(stage, h)
    if vals is None:
        return Outcome(False, "", "no concrete values from the solver")
    inst = h.inst
    if h.name.startswith("sep_"):
        n, k = [int(x) for x in _re.findall(r"separator_skip!\(\w+, (\d+), (\d+)", inst)[0]]
        text = bytes(v[0] for v in vals[:n])
        a, b = text, text[k:]
    elif h.name.startswith("shift_"):
        n = int(_re.findall(r"translation!\(\w+, (\d+)", inst)[0])
        t = bytes(v[0] for v in vals[:n])
        a, b = t, b" " + t
    else:
        # multiword: separators are drawn in order, then the tail byte; rebuild the text from the macro arguments
        m = _re.findall(r'multiword!\(\w+, (\d+), b"(\w*)", b"(\w*)", b"(\w*)", (\d+), (\d+)', inst)[0]
        n, w1, w2, w3, l1, l2 = int(m[0]), m[1].encode(), m[2].encode(), m[3].encode(), int(m[4]), int(m[5])
        flat = [v[0] for v in vals]
        s1 = bytes(flat[:l1]); rest = flat[l1:]
        text = w1 + s1 + w2
        ref = w1 + b" " + w2
        if w3:
            s2 = bytes(rest[:l2]); rest = rest[l2:]
            text += s2 + w3
            ref += b" " + w3
        if len(text) < n and rest:
            text += bytes(rest[:1]); ref += bytes(rest[:1])
        # absolute expectation of 10.b: keyword when the last word ends there, identifier otherwise
        good = ", true, " in inst
        kw = {b"to": "IfToSay", b"not": "IfNotSo", b"pass": "SmallPass"}[w2]
        expect = kw if (good or len(text) == len(w1 + s1 + w2) + (len(s2 + w3) if w3 else 0)) else 'Identifier("%s")' % w1.decode()
        case = ["c10-first-token", text.hex(), expect]
        hit, outs = _native_case(stage, case)
        path = _save(outdir, prop, h, {"kind": "native-case", "case": case, "expect_rc": 1, "runs": outs,
                                       "text": text.decode("utf-8", "replace")})
        return Outcome(hit, path, outs[0]["output"].strip()[-400:])
    case = ["c10-layout", a.hex(), b.hex()]
    hit, outs = _native_case(stage, case)
    path = _save(outdir, prop, h, {"kind": "native-case", "case": case, "expect_rc": 1, "runs": outs,
                                   "layout_a": a.decode("utf-8", "replace"), "layout_b": b.decode("utf-8", "replace")})
    return Outcome(hit, path, outs[0]["output"].strip()[-400:])


def adapter_c07_local_range(stage, prop, h, r, unlisted, outdir):
    ok, detail = _known_c07_local_range(stage, None)
    path = os.path.join(outdir, "%s_%s.json" % (prop.id, h.name))
    json.dump({"property": prop.id, "kind": "script", "script": _interleaved_program(), "expect": "crash",
               "harness": h.name, "detail": detail}, open(path, "w"), indent=1)
    return Outcome(ok, path, detail)


# ---- C09: render a rule counterexample to a script and run the real resolver (and evaluator) ----
_LIT = {0: "1", 1: '"s"', 2: "true", 3: "[1]", 4: 'command("echo")', 5: 'command("echo").run()', 6: "d", 7: "null"}
_TNAME = ["number", "string", "bool", "array", "process_command", "process_result", "dynamic", "null", "unknown"]


def _c09_scripts(h, vals, clauses=()):
    """Returns [(script, expect)] with expect in {'reject', 'accept'}; the counterexample reproduces
    when the real front end does the opposite, or accepts and then crashes."""
    flat = [v[0] if v else 0 for v in (vals or [])]
    name = h.name
    pre = "do dyn(x) start return x end\nmake d get dyn(1)\n"   # `d` has the static type dynamic
    out = []
    if name.startswith("binary_"):
        ops = {"binary_add": ["add"], "binary_arith": ["minus", "times", "divide", "mod"],
               "binary_compare": ["na", "pass", "small pass"], "binary_logic": ["and", "or"]}[name]
        # draws: [op selector (absent for add)], tl, tr
        if name == "binary_add":
            op, tl, tr = ops[0], flat[0], flat[1]
        else:
            op, tl, tr = ops[min(flat[0], len(ops) - 1)], flat[1], flat[2]
        if tl > 7 or tr > 7:
            return []
        adm = {"binary_add": lambda a, b: a in (0, 1, 6) and b in (0, 1, 6),
               "binary_arith": lambda a, b: a in (0, 6) and b in (0, 6),
               "binary_compare": lambda a, b: (a == b and a in (0, 1, 2)) or a in (6, 7) or b in (6, 7),
               "binary_logic": lambda a, b: a in (2, 6, 7) and b in (2, 6, 7)}[name](tl, tr)
        for opx in ([op] if name != "binary_logic" else ["and", "or"]):
            out.append((pre + "make r get %s %s %s\nshout(r)\n" % (_LIT[tl], opx, _LIT[tr]), "accept" if adm else "reject"))
    elif name.startswith("function_body"):
        # one family of scripts per violated clause of the function-body contract
        if "loop-context" in clauses or not clauses:
            out.append(("make c get true\njasi(c) start\n  do f() start\n    comot\n  end\n  f()\n  c get false\nend\n", "reject"))
            out.append(("make c get true\njasi(c) start\n  do f() start\n    next\n  end\n  f()\n  c get false\nend\n", "reject"))
        if "function-context" in clauses:
            out.append(("do f() start\n  return 1\nend\nshout(f())\n", "accept"))
        if "context" in clauses:
            # the context after the definition is the context before it
            out.append(("do f() start\n  shout(1)\nend\nf()\nreturn 1\n", "reject"))
            out.append(("do g() start\n  do f() start\n    shout(1)\n  end\n  f()\n  return 2\nend\nshout(g())\n", "accept"))
            out.append(("make c get true\njasi(c) start\n  do f() start\n    shout(1)\n  end\n  f()\n  c get false\n  comot\nend\n", "accept"))
            out.append(("do f() start\n  shout(1)\nend\nf()\ncomot\n", "reject"))
    elif name in ("comot_context", "next_context"):
        kw = "comot" if name.startswith("comot") else "next"
        out.append((kw + "\n", "reject"))
        out.append(("make c get true\njasi(c) start\n  c get false\n  %s\nend\n" % kw, "accept"))
    elif name == "return_context":
        out.append(("return 1\n", "reject"))
        out.append(("do f() start return 1 end\nshout(f())\n", "accept"))
    elif name.startswith("member_"):
        # draws: receiver type, argument type
        recv, argt = (flat + [0, 0])[:2]
        if recv > 7 or argt > 7:
            return []
        _m, fname, na = name.split("_")[0], "_".join(name.split("_")[1:-1]), int(name[-1])
        args = ", ".join([_LIT[argt]] * na)
        table = {1: {"len": (0, 0), "trim": (0, 0), "find": (1, 1), "split": (1, 1), "replace": (2, 1), "slice": (2, 2)},
                 3: {"len": (0, 0), "pop": (0, 0), "join": (1, 1), "push": (1, 0)}, 0: {"abs": (0, 0)}, 5: {"success": (0, 0)}, 4: {"run": (0, 0)}}
        if recv == 6:
            adm = True
        else:
            sig = table.get(recv, {}).get(fname)
            adm = sig is not None and sig[0] == na and not (na >= 1 and sig[1] and argt != 6 and argt != (1 if sig[1] == 1 else 0))
        recv_expr = "(%s)" % _LIT[recv] if recv in (0,) else _LIT[recv]
        if recv == 3 and fname in ("push", "pop"):
            out.append((pre + "make arr get [1]\narr.%s(%s)\nshout(arr)\n" % (fname, args), "accept" if adm else "reject"))
        else:
            out.append((pre + "make r get %s.%s(%s)\nshout(r)\n" % (recv_expr, fname, args), "accept" if adm else "reject"))
    elif name.startswith("rule_"):
        t = flat[0] if flat else 0
        if t > 7:
            return []
        form = {"rule_not": "make r get not %s\n", "rule_neg": "make r get -%s\n", "rule_condition": "if to say(%s) start shout(1) end\n",
                "rule_index": "make r get %s[0]\n"}[name] % _LIT[t]
        adm = {"rule_not": t in (2, 6, 7), "rule_neg": t in (0, 6), "rule_condition": t in (2, 6, 7), "rule_index": t in (3, 6)}[name]
        out.append((pre + form, "accept" if adm else "reject"))
    return out


def adapter_c09_script(stage, prop, h, r, unlisted, outdir):
    vals, _t = _values(stage, h)
    scripts = _c09_scripts(h, vals, [cl for cl, _c in unlisted])
    tried = []
    for script, expect in scripts:
        for rel in (False, True):
            rc, out = run_script(stage, script, release=rel, timeout=30)
            rejected = any(l.startswith("DIAG:resolve:Error") or l.startswith("DIAG:parse:Error") for l in out.splitlines())
            tried.append({"script": script, "expect": expect, "release": rel, "rc": rc, "output": out[-600:]})
            bad = (expect == "reject" and not rejected) or (expect == "accept" and rejected) or crashed(rc)
            if bad:
                path = _save(outdir, prop, h, {"kind": "script", "script": script, "expect": "crash" if crashed(rc) else expect,
                                               "expect_static": expect, "runs": tried})
                what = "accepted by the static checker, then the interpreter crashed" if crashed(rc) else (
                    "ill-formed program accepted" if expect == "reject" else "well-formed program rejected")
                return Outcome(True, path, "%s: %r" % (what, script[-80:]))
    path = _save(outdir, prop, h, {"kind": "script", "script": scripts[0][0] if scripts else "", "expect": "n/a", "runs": tried})
    return Outcome(False, path, "the real front end agrees with the rule on the rendered script(s)")


# ---- C02: provenance class -> program through the real pipeline (dev build poisons freed memory) ----
_C02_SCRIPTS = {
    "overwrite_c0": [('make x get "a" add "b"\nx get x\nshout(x)\n', ["ab"]),
                     ('make x get "hello " add "world"\nmake y get 1\nx get x\nshout(x)\n', ["hello world"])],
    "overwrite_c1": [('make x get "a" add "b"\nx get x add "c"\nshout(x)\n', ["abc"])],
    "overwrite_c2": [('make x get "a" add "b"\nx get "lit"\nshout(x)\n', ["lit"])],
    "relocate_alias_frame": [('do f(p) start\n  return p\nend\nshout(f("a" add "b"))\nmake t get "zz" add "zz"\nshout(f("c" add "d") add t)\n', ["ab", "cdzzzz"])],
    "relocate_alias_slot": [('do f() start\n  make s get "a" add "b"\n  return s\nend\nshout(f())\nmake k get f()\nmake z get "zz" add "z"\nshout(k)\n', ["ab", "ab"])],
    "relocate_host_result": [('do mk() start\n  return command("echo")\nend\nmake c get mk()\nmake z get "zz" add "zzzzzzzzzzzzzzzzzzzzzzzzzzzzzzzzzzzzzzzzzzzzzz"\nshout(c)\n',
                              ['<process_command program="echo" args=0>'])],
    "detach_alias_slot": [('do f() start\n  make s get "a" add "b"\n  return s\nend\nshout(f())\nmake k get f()\nmake z get "zz" add "z"\nshout(k add z)\n', ["ab", "abzzz"])],
    "detach_alias_frame": [('do f(p) start\n  return p\nend\nshout(f("a" add "b"))\nmake t get "zz" add "zz"\nshout(f("c" add "d") add t)\n', ["ab", "cdzzzz"])],
    "detach_source": [('do f() start\n  return "lit"\nend\nmake k get f()\nmake z get "zz" add "z"\nshout(k add z)\n', ["litzzz"])],
    "detach_owned_slot": [('do f() start\n  return "a" add "b"\nend\nmake k get f()\nmake z get "zz" add "z"\nshout(k add z)\n', ["abzzz"])],
    "detach_array": [
        ('do f(k) start\n  make key get k add ":"\n  return [key, 1, true, null]\nend\nmake t get f("name")\nmake z get "zz" add "zzz"\nshout(t)\nshout(t[0] add z)\n',
         ['["name:", 1, true, null]', "name:zzzzz"]),
        ('do g(k) start\n  make key get k add ":"\n  return [[key], [k add "!"]]\nend\nmake t get g("name")\nmake z get "zzzzz" add "z"\nshout(t)\nshout(t[0][0] add t[1][0] add z)\n',
         ['[["name:"], ["name!"]]', "name:name!zzzzzz"]),
        ('do h(p) start\n  return [[p]]\nend\nmake t get h("a" add "b")\nmake z get "zz" add "zz"\nshout(t[0][0] add z)\n', ["abzzzz"]),
        ('do e() start\n  return []\nend\nshout(e())\n', ["[]"]),
    ],
    "relocate_owned_frame": [('do f() start\n  return "a" add "b"\nend\nmake k get f()\nmake z get "zz" add "z"\nshout(k)\n', ["ab"])],
}


def adapter_c02_script(stage, prop, h, r, unlisted, outdir):
    scripts = _C02_SCRIPTS.get(h.name) or _C02_SCRIPTS.get(h.name.rsplit("_n", 1)[0], [])
    tried = []
    for script, want in scripts:
        for rel in (False, True):
            for mode in ("analysis", "plain"):
                rc, out = run_script(stage, script, mode=mode, release=rel, timeout=30)
                got = [l[4:] for l in out.splitlines() if l.startswith("OUT:")]
                tried.append({"script": script, "release": rel, "mode": mode, "rc": rc, "got": got, "want": want, "tail": out[-300:]})
                if crashed(rc) or got != want:
                    path = _save(outdir, prop, h, {"kind": "script", "script": script, "expect_out": want, "runs": tried})
                    return Outcome(True, path, "program %r: expected output %r, got %r (rc=%d, %s build)" % (
                        script, want, got, rc, "release" if rel else "dev"))
    path = _save(outdir, prop, h, {"kind": "script", "script": scripts[0][0] if scripts else "", "expect_out": scripts[0][1] if scripts else [], "runs": tried})
    return Outcome(False, path, "the real pipeline prints the expected values for the programs of this class")


ADAPTERS = {"c02_script": adapter_c02_script, "c07_text": adapter_c07_text, "c09_script": adapter_c09_script, "c07_local_range": adapter_c07_local_range, "c10_layout": adapter_c10_layout, "c11_align": adapter_c11_align, "c13_find": adapter_c13_find, "c13_replace": adapter_c13_replace}


def replay_file(art, path):
    if art.get("kind") == "native-case":
        stage = Stage(art["property"] + ".replay")
        try:
            worst = 0
            for rel in (False, True):
                rc, out = run_case(stage, art["case"], release=rel, stdin=(art.get("stdin") or "").encode() or None)
                print(out)
                if rc == art.get("expect_rc", 1) or crashed(rc):
                    worst = 1
            if worst:
                print("VIOLATION property=%s replay=%s" % (art["property"], path))
            return worst
        finally:
            stage.cleanup()
    if art.get("kind") == "script":
        stage = Stage(art["property"] + ".replay")
        try:
            worst = 0
            for rel in (False, True):
                rc, out = run_script(stage, art["script"], release=rel, stdin=(art.get("stdin") or "").encode() or None, timeout=60)
                print(out[-2000:])
                if art.get("expect") == "crash" and crashed(rc):
                    worst = 1
                if art.get("expect_out") is not None:
                    got = [l[4:] for l in out.splitlines() if l.startswith("OUT:")]
                    if got != art["expect_out"]:
                        worst = 1
            if worst:
                print("VIOLATION property=%s replay=%s" % (art["property"], path))
            return worst
        finally:
            stage.cleanup()
    print("unknown replay kind", art.get("kind"))
    return 2
