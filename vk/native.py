"""Native replay: builds /verif/replay against the staged copy of /repo and runs cases.

The replay crate links the *real* library (no cfg(kani), no stubs) with the
repository's own toolchain, in the dev profile and in --release.
"""
import json
import os
import shutil
import subprocess

from .stage import Stage, VERIF

_built = {}


def build(stage, release=False):
    key = (stage.root, release)
    if key in _built:
        return _built[key]
    rdir = os.path.join(stage.root, "replay")
    if not os.path.exists(rdir):
        shutil.copytree(os.path.join(VERIF, "replay"), rdir)
        with open(os.path.join(rdir, "Cargo.toml"), "w") as f:
            f.write('[package]\nname = "vreplay"\nversion = "0.0.0"\nedition = "2024"\npublish = false\n\n'
                    '[workspace]\n\n[dependencies]\nnaijascript = { path = "%s" }\n\n'
                    '[profile.release]\ndebug-assertions = false\noverflow-checks = false\n' % stage.crate)
        shutil.copy(os.path.join(stage.crate, "rust-toolchain.toml"), rdir)
        lock = os.path.join(stage.crate, "Cargo.lock")
        if os.path.exists(lock):
            shutil.copy(lock, rdir)
    env = dict(os.environ)
    env["CARGO_NET_OFFLINE"] = "true"
    env["CARGO_TERM_COLOR"] = "never"
    cmd = ["cargo", "build", "--offline"] + (["--release"] if release else [])
    p = subprocess.run(cmd, cwd=rdir, env=env, stdout=subprocess.PIPE, stderr=subprocess.STDOUT, text=True)
    if p.returncode != 0:
        raise RuntimeError("replay crate build failed:\n" + p.stdout[-3000:])
    binp = os.path.join(rdir, "target", "release" if release else "debug", "vreplay")
    _built[key] = binp
    return binp


def run_case(stage, args, release=False, stdin=None, timeout=30):
    """Returns (rc, output).  rc < 0: killed by a signal; 124: timeout."""
    binp = build(stage, release)
    try:
        p = subprocess.run([binp] + list(args), input=stdin, stdout=subprocess.PIPE, stderr=subprocess.STDOUT,
                           timeout=timeout)
        return p.returncode, p.stdout.decode(errors="replace")
    except subprocess.TimeoutExpired as e:
        return 124, (e.stdout or b"").decode(errors="replace") + "\n[timeout]"


def run_script(stage, text, mode="analysis", release=False, stdin=None, timeout=30):
    path = os.path.join(stage.root, "replay_script.ns")
    with open(path, "wb") as f:
        f.write(text if isinstance(text, bytes) else text.encode())
    return run_case(stage, ["script", path, mode], release=release, stdin=stdin, timeout=timeout)


def crashed(rc):
    return rc < 0 or rc in (101, 134, 139, 124)


# ---------------------------------------------------------------------------
# known findings: each entry's "replay" names a case here
def _known_c11_align(stage, k):
    for rel in (False, True):
        rc, out = run_case(stage, ["c11-align", "16"], release=rel)
        if rc != 1:
            return False, "c11-align rc=%d %s" % (rc, out.strip()[-200:])
    return True, out.strip()


KNOWN = {"c11-align": _known_c11_align}


def confirm_known(stage, prop, h, k):
    fn = KNOWN.get(k.get("replay", {}).get("case"))
    if fn is None:
        return False, "no native case for %s" % (k.get("key"),)
    return fn(stage, k)


# ---------------------------------------------------------------------------
from .replay import Outcome  # noqa: E402


def adapter_c11_align(stage, prop, h, r, unlisted, outdir):
    ok, detail = _known_c11_align(stage, None)
    path = os.path.join(outdir, "%s_%s.json" % (prop.id, h.name))
    json.dump({"property": prop.id, "kind": "native-case", "case": ["c11-align", "16"], "expect_rc": 1,
               "harness": h.name, "detail": detail}, open(path, "w"), indent=1)
    return Outcome(ok, path, detail)


def _values(stage, h):
    from . import kani
    vals, test = kani.concrete_playback_values(stage, h.full, h.profile, max(h.timeout, 900), 16)
    return vals, test


def _save(outdir, prop, h, art):
    path = os.path.join(outdir, "%s_%s.json" % (prop.id, h.name))
    art.update({"property": prop.id, "harness": h.name})
    json.dump(art, open(path, "w"), indent=1)
    return path


def _native_case(stage, case, timeout=15):
    """Runs a case in dev and release; reproduced if either shows rc==1, a crash or a hang."""
    outs = []
    hit = False
    for rel in (False, True):
        rc, out = run_case(stage, case, release=rel, timeout=timeout)
        outs.append({"release": rel, "rc": rc, "output": out[-1500:]})
        if rc == 1 or crashed(rc):
            hit = True
    return hit, outs


def adapter_c13_find(stage, prop, h, r, unlisted, outdir):
    """Harness draws hay bytes then needle bytes (one u8 each), in that order."""
    vals, _t = _values(stage, h)
    hn, nn = h.shape["hay"], h.shape["needle"]
    if not vals or len(vals) < hn + nn:
        return Outcome(False, "", "no concrete values from the solver")
    hay = bytes(v[0] for v in vals[:hn])
    nd = bytes(v[0] for v in vals[hn:hn + nn])
    case = ["c13-find", hay.hex(), nd.hex()]
    hit, outs = _native_case(stage, case)
    path = _save(outdir, prop, h, {"kind": "native-case", "case": case, "expect_rc": 1, "runs": outs,
                                   "hay": hay.decode("latin1"), "needle": nd.decode("latin1")})
    return Outcome(hit, path, outs[0]["output"].strip()[-300:] if hit else
                   "real find() agrees with std on the counterexample (it depends on a contract stub)")


def adapter_c13_replace(stage, prop, h, r, unlisted, outdir):
    """Harness draws hay, from, to bytes (one u8 each, in that order)."""
    vals, _t = _values(stage, h)
    hn, fn, tn = h.shape["hay"], h.shape["from"], h.shape["to"]
    if vals is None or len(vals) < hn + fn + tn:
        return Outcome(False, "", "no concrete values from the solver")
    b = bytes(v[0] for v in vals[:hn + fn + tn])
    case = ["c13-replace", b[:hn].hex(), b[hn:hn + fn].hex(), b[hn + fn:].hex()]
    hit, outs = _native_case(stage, case)
    path = _save(outdir, prop, h, {"kind": "native-case", "case": case, "expect_rc": 1, "runs": outs})
    return Outcome(hit, path, outs[0]["output"].strip()[-300:])


def adapter_c07_text(stage, prop, h, r, unlisted, outdir):
    """Scanner harnesses draw the N text bytes first.  The counterexample text is lexed natively
    from the start; the suffix from the harness cursor is tried as a text of its own as well
    (the per-routine harness starts at an arbitrary cursor)."""
    vals, _t = _values(stage, h)
    n, cur = h.shape["text_bytes"], h.shape.get("cursor", 0)
    if vals is None or len(vals) < n:
        return Outcome(False, "", "no concrete values from the solver")
    text = bytes(v[0] for v in vals[:n])
    tried = []
    for cand in (text, text[cur:]):
        case = ["c07-lex", cand.hex()]
        hit, outs = _native_case(stage, case)
        tried.append({"case": case, "runs": outs})
        if hit:
            path = _save(outdir, prop, h, {"kind": "native-case", "case": case, "expect_rc": 1, "runs": outs,
                                           "text": cand.decode("utf-8", "replace")})
            return Outcome(True, path, outs[0]["output"].strip()[-300:])
    path = _save(outdir, prop, h, {"kind": "native-case", "case": tried[0]["case"], "expect_rc": 1, "tried": tried})
    return Outcome(False, path, "the real lexer handles the counterexample text (cursor not reachable by lexing from 0?)")


ADAPTERS = {"c07_text": adapter_c07_text, "c11_align": adapter_c11_align, "c13_find": adapter_c13_find, "c13_replace": adapter_c13_replace}


def replay_file(art, path):
    if art.get("kind") == "native-case":
        stage = Stage(art["property"] + ".replay")
        try:
            worst = 0
            for rel in (False, True):
                rc, out = run_case(stage, art["case"], release=rel, stdin=(art.get("stdin") or "").encode() or None)
                print(out)
                if rc == art.get("expect_rc", 1) or crashed(rc):
                    worst = 1
            if worst:
                print("VIOLATION property=%s replay=%s" % (art["property"], path))
            return worst
        finally:
            stage.cleanup()
    print("unknown replay kind", art.get("kind"))
    return 2
