"""Native replay: builds /verif/replay against the staged copy of /repo and runs cases.

The replay crate links the *real* library (no cfg(kani), no stubs) with the
repository's own toolchain, in the dev profile and in --release.
"""
import json
import os
import shutil
import subprocess

from .stage import Stage, VERIF

_built = {}


def build(stage, release=False):
    key = (stage.root, release)
    if key in _built:
        return _built[key]
    rdir = os.path.join(stage.root, "replay")
    if not os.path.exists(rdir):
        shutil.copytree(os.path.join(VERIF, "replay"), rdir)
        with open(os.path.join(rdir, "Cargo.toml"), "w") as f:
            f.write('[package]\nname = "vreplay"\nversion = "0.0.0"\nedition = "2024"\npublish = false\n\n'
                    '[workspace]\n\n[dependencies]\nnaijascript = { path = "%s" }\n\n'
                    '[profile.release]\ndebug-assertions = false\noverflow-checks = false\n' % stage.crate)
        shutil.copy(os.path.join(stage.crate, "rust-toolchain.toml"), rdir)
        lock = os.path.join(stage.crate, "Cargo.lock")
        if os.path.exists(lock):
            shutil.copy(lock, rdir)
    env = dict(os.environ)
    env["CARGO_NET_OFFLINE"] = "true"
    env["CARGO_TERM_COLOR"] = "never"
    cmd = ["cargo", "build", "--offline"] + (["--release"] if release else [])
    p = subprocess.run(cmd, cwd=rdir, env=env, stdout=subprocess.PIPE, stderr=subprocess.STDOUT, text=True)
    if p.returncode != 0:
        raise RuntimeError("replay crate build failed:\n" + p.stdout[-3000:])
    binp = os.path.join(rdir, "target", "release" if release else "debug", "vreplay")
    _built[key] = binp
    return binp


def run_case(stage, args, release=False, stdin=None, timeout=30):
    """Returns (rc, output).  rc < 0: killed by a signal; 124: timeout."""
    binp = build(stage, release)
    try:
        p = subprocess.run([binp] + list(args), input=stdin, stdout=subprocess.PIPE, stderr=subprocess.STDOUT,
                           timeout=timeout)
        return p.returncode, p.stdout.decode(errors="replace")
    except subprocess.TimeoutExpired as e:
        return 124, (e.stdout or b"").decode(errors="replace") + "\n[timeout]"


def run_script(stage, text, mode="analysis", release=False, stdin=None, timeout=30):
    path = os.path.join(stage.root, "replay_script.ns")
    with open(path, "wb") as f:
        f.write(text if isinstance(text, bytes) else text.encode())
    return run_case(stage, ["script", path, mode], release=release, stdin=stdin, timeout=timeout)


def crashed(rc):
    return rc < 0 or rc in (101, 134, 139, 124)


# ---------------------------------------------------------------------------
# known findings: each entry's "replay" names a case here
def _known_c11_align(stage, k):
    for rel in (False, True):
        rc, out = run_case(stage, ["c11-align", "16"], release=rel)
        if rc != 1:
            return False, "c11-align rc=%d %s" % (rc, out.strip()[-200:])
    return True, out.strip()


def _interleaved_program(n=70):
    s = "make a get 1\n"
    for i in range(n):
        s += "do f%d(p) start return p end\nshout(f%d(1))\n" % (i, i)
    return s + "make b get 2\nshout(b)\n"


def _known_c07_local_range(stage, k):
    """A valid program whose top-level locals are interleaved with nested-function parameters,
    scaled past one 64-bit word of the liveness bit set: the static checker must not crash."""
    outs = []
    for rel in (False, True):
        rc, out = run_script(stage, _interleaved_program(), release=rel, timeout=60)
        outs.append((rel, rc))
        if not crashed(rc):
            return False, "front end handled the interleaved-locals program (rc=%d)" % rc
    return True, "static checker panics (index out of bounds in liveness) on a valid 142-line program: %s" % (outs,)


KNOWN = {"c11-align": _known_c11_align, "c07-local-range": _known_c07_local_range}


def confirm_known(stage, prop, h, k):
    fn = KNOWN.get(k.get("replay", {}).get("case"))
    if fn is None:
        return False, "no native case for %s" % (k.get("key"),)
    return fn(stage, k)


# ---------------------------------------------------------------------------
from .replay import Outcome  # noqa: E402


def adapter_c11_align(stage, prop, h, r, unlisted, outdir):
    ok, detail = _known_c11_align(stage, None)
    path = os.path.join(outdir, "%s_%s.json" % (prop.id, h.name))
    json.dump({"property": prop.id, "kind": "native-case", "case": ["c11-align", "16"], "expect_rc": 1,
               "harness": h.name, "detail": detail}, open(path, "w"), indent=1)
    return Outcome(ok, path, detail)


def _values(stage, h):
    from . import kani
    vals, test = kani.concrete_playback_values(stage, h.full, h.profile, max(h.timeout, 900), 16)
    return vals, test


def _save(outdir, prop, h, art):
    path = os.path.join(outdir, "%s_%s.json" % (prop.id, h.name))
    art.update({"property": prop.id, "harness": h.name})
    json.dump(art, open(path, "w"), indent=1)
    return path


def _native_case(stage, case, timeout=15):
    """Runs a case in dev and release; reproduced if either shows rc==1, a crash or a hang."""
    outs = []
    hit = False
    for rel in (False, True):
        rc, out = run_case(stage, case, release=rel, timeout=timeout)
        outs.append({"release": rel, "rc": rc, "output": out[-1500:]})
        if rc == 1 or crashed(rc):
            hit = True
    return hit, outs


def adapter_c13_find(stage, prop, h, r, unlisted, outdir):
    """Harness draws hay bytes then needle bytes (one u8 each), in that order."""
    vals, _t = _values(stage, h)
    hn, nn = h.shape["hay"], h.shape["needle"]
    if not vals or len(vals) < hn + nn:
        return Outcome(False, "", "no concrete values from the solver")
    hay = bytes(v[0] for v in vals[:hn])
    nd = bytes(v[0] for v in vals[hn:hn + nn])
    case = ["c13-find", hay.hex(), nd.hex()]
    hit, outs = _native_case(stage, case)
    path = _save(outdir, prop, h, {"kind": "native-case", "case": case, "expect_rc": 1, "runs": outs,
                                   "hay": hay.decode("latin1"), "needle": nd.decode("latin1")})
    return Outcome(hit, path, outs[0]["output"].strip()[-300:] if hit else
                   "real find() agrees with std on the counterexample (it depends on a contract stub)")


def adapter_c13_replace(stage, prop, h, r, unlisted, outdir):
    """Harness draws hay, from, to bytes (one u8 each, in that order)."""
    vals, _t = _values(stage, h)
    hn, fn, tn = h.shape["hay"], h.shape["from"], h.shape["to"]
    if vals is None or len(vals) < hn + fn + tn:
        return Outcome(False, "", "no concrete values from the solver")
    b = bytes(v[0] for v in vals[:hn + fn + tn])
    case = ["c13-replace", b[:hn].hex(), b[hn:hn + fn].hex(), b[hn + fn:].hex()]
    hit, outs = _native_case(stage, case)
    path = _save(outdir, prop, h, {"kind": "native-case", "case": case, "expect_rc": 1, "runs": outs})
    return Outcome(hit, path, outs[0]["output"].strip()[-300:])


def adapter_c07_text(stage, prop, h, r, unlisted, outdir):
    """Scanner harnesses draw the N text bytes first.  The counterexample text is lexed natively
    from the start; the suffix from the harness cursor is tried as a text of its own as well
    (the per-routine harness starts at an arbitrary cursor)."""
    vals, _t = _values(stage, h)
    n, cur = h.shape["text_bytes"], h.shape.get("cursor", 0)
    if vals is None or len(vals) < n:
        return Outcome(False, "", "no concrete values from the solver")
    text = bytes(v[0] for v in vals[:n])
    tried = []
    for cand in (text, text[cur:]):
        case = ["c07-lex", cand.hex()]
        hit, outs = _native_case(stage, case)
        tried.append({"case": case, "runs": outs})
        if hit:
            path = _save(outdir, prop, h, {"kind": "native-case", "case": case, "expect_rc": 1, "runs": outs,
                                           "text": cand.decode("utf-8", "replace")})
            return Outcome(True, path, outs[0]["output"].strip()[-300:])
    path = _save(outdir, prop, h, {"kind": "native-case", "case": tried[0]["case"], "expect_rc": 1, "tried": tried})
    return Outcome(False, path, "the real lexer handles the counterexample text (cursor not reachable by lexing from 0?)")


def adapter_c10_layout(stage, prop, h, r, unlisted, outdir):
    """Renders the relational counterexample as two complete layouts and lexes both natively."""
    import re as _re
    vals, _t = _values(stage, h)
    if vals is None:
        return Outcome(False, "", "no concrete values from the solver")
    inst = h.inst
    if h.name.startswith("sep_"):
        n, k = [int(x) for x in _re.findall(r"separator_skip!\(\w+, (\d+), (\d+)", inst)[0]]
        text = bytes(v[0] for v in vals[:n])
        a, b = text, text[k:]
    elif h.name.startswith("shift_"):
        n = int(_re.findall(r"translation!\(\w+, (\d+)", inst)[0])
        t = bytes(v[0] for v in vals[:n])
        a, b = t, b" " + t
    else:
        # multiword: separators are drawn in order, then the tail byte; rebuild the text from the macro arguments
        m = _re.findall(r'multiword!\(\w+, (\d+), b"(\w*)", b"(\w*)", b"(\w*)", (\d+), (\d+)', inst)[0]
        n, w1, w2, w3, l1, l2 = int(m[0]), m[1].encode(), m[2].encode(), m[3].encode(), int(m[4]), int(m[5])
        flat = [v[0] for v in vals]
        s1 = bytes(flat[:l1]); rest = flat[l1:]
        text = w1 + s1 + w2
        ref = w1 + b" " + w2
        if w3:
            s2 = bytes(rest[:l2]); rest = rest[l2:]
            text += s2 + w3
            ref += b" " + w3
        if len(text) < n and rest:
            text += bytes(rest[:1]); ref += bytes(rest[:1])
        # absolute expectation of 10.b: keyword when the last word ends there, identifier otherwise
        good = ", true, " in inst
        kw = {b"to": "IfToSay", b"not": "IfNotSo", b"pass": "SmallPass"}[w2]
        expect = kw if (good or len(text) == len(w1 + s1 + w2) + (len(s2 + w3) if w3 else 0)) else 'Identifier("%s")' % w1.decode()
        case = ["c10-first-token", text.hex(), expect]
        hit, outs = _native_case(stage, case)
        path = _save(outdir, prop, h, {"kind": "native-case", "case": case, "expect_rc": 1, "runs": outs,
                                       "text": text.decode("utf-8", "replace")})
        return Outcome(hit, path, outs[0]["output"].strip()[-400:])
    case = ["c10-layout", a.hex(), b.hex()]
    hit, outs = _native_case(stage, case)
    path = _save(outdir, prop, h, {"kind": "native-case", "case": case, "expect_rc": 1, "runs": outs,
                                   "layout_a": a.decode("utf-8", "replace"), "layout_b": b.decode("utf-8", "replace")})
    return Outcome(hit, path, outs[0]["output"].strip()[-400:])


def adapter_c07_local_range(stage, prop, h, r, unlisted, outdir):
    ok, detail = _known_c07_local_range(stage, None)
    path = os.path.join(outdir, "%s_%s.json" % (prop.id, h.name))
    json.dump({"property": prop.id, "kind": "script", "script": _interleaved_program(), "expect": "crash",
               "harness": h.name, "detail": detail}, open(path, "w"), indent=1)
    return Outcome(ok, path, detail)


# ---- C09: render a rule counterexample to a script and run the real resolver (and evaluator) ----
_LIT = {0: "1", 1: '"s"', 2: "true", 3: "[1]", 4: 'command("echo")', 5: 'command("echo").run()', 6: "d", 7: "null"}
_TNAME = ["number", "string", "bool", "array", "process_command", "process_result", "dynamic", "null", "unknown"]


def _c09_scripts(h, vals, clauses=()):
    """Returns [(script, expect)] with expect in {'reject', 'accept'}; the counterexample reproduces
    when the real front end does the opposite, or accepts and then crashes."""
    flat = [v[0] if v else 0 for v in (vals or [])]
    name = h.name
    pre = "do dyn(x) start return x end\nmake d get dyn(1)\n"   # `d` has the static type dynamic
    out = []
    if name.startswith("binary_"):
        ops = {"binary_add": ["add"], "binary_arith": ["minus", "times", "divide", "mod"],
               "binary_compare": ["na", "pass", "small pass"], "binary_logic": ["and", "or"]}[name]
        # draws: [op selector (absent for add)], tl, tr
        if name == "binary_add":
            op, tl, tr = ops[0], flat[0], flat[1]
        else:
            op, tl, tr = ops[min(flat[0], len(ops) - 1)], flat[1], flat[2]
        if tl > 7 or tr > 7:
            return []
        adm = {"binary_add": lambda a, b: a in (0, 1, 6) and b in (0, 1, 6),
               "binary_arith": lambda a, b: a in (0, 6) and b in (0, 6),
               "binary_compare": lambda a, b: (a == b and a in (0, 1, 2)) or a in (6, 7) or b in (6, 7),
               "binary_logic": lambda a, b: a in (2, 6, 7) and b in (2, 6, 7)}[name](tl, tr)
        for opx in ([op] if name != "binary_logic" else ["and", "or"]):
            out.append((pre + "make r get %s %s %s\nshout(r)\n" % (_LIT[tl], opx, _LIT[tr]), "accept" if adm else "reject"))
    elif name.startswith("function_body"):
        # one family of scripts per violated clause of the function-body contract
        if "loop-context" in clauses or not clauses:
            out.append(("make c get true\njasi(c) start\n  do f() start\n    comot\n  end\n  f()\n  c get false\nend\n", "reject"))
            out.append(("make c get true\njasi(c) start\n  do f() start\n    next\n  end\n  f()\n  c get false\nend\n", "reject"))
        if "function-context" in clauses:
            out.append(("do f() start\n  return 1\nend\nshout(f())\n", "accept"))
        if "context" in clauses:
            # the context after the definition is the context before it
            out.append(("do f() start\n  shout(1)\nend\nf()\nreturn 1\n", "reject"))
            out.append(("do g() start\n  do f() start\n    shout(1)\n  end\n  f()\n  return 2\nend\nshout(g())\n", "accept"))
            out.append(("make c get true\njasi(c) start\n  do f() start\n    shout(1)\n  end\n  f()\n  c get false\n  comot\nend\n", "accept"))
            out.append(("do f() start\n  shout(1)\nend\nf()\ncomot\n", "reject"))
    elif name in ("comot_context", "next_context"):
        kw = "comot" if name.startswith("comot") else "next"
        out.append((kw + "\n", "reject"))
        out.append(("make c get true\njasi(c) start\n  c get false\n  %s\nend\n" % kw, "accept"))
    elif name == "return_context":
        out.append(("return 1\n", "reject"))
        out.append(("do f() start return 1 end\nshout(f())\n", "accept"))
    elif name.startswith("member_"):
        # draws: receiver type, argument type
        # draws: receiver type, type of the first argument, type of the second argument
        recv, argt, argt2 = (flat + [0, 0, 0])[:3]
        # an argument of unknown static type (draw 8) is rendered like a dynamic one: both are left to run time
        argt, argt2 = (6 if argt == 8 else argt), (6 if argt2 == 8 else argt2)
        if recv > 7 or argt > 7 or argt2 > 7:
            return []
        _m, fname, na = name.split("_")[0], "_".join(name.split("_")[1:-1]), int(name[-1])
        args = ", ".join([_LIT[argt], _LIT[argt2]][:na])
        table = {1: {"len": (0, 0), "trim": (0, 0), "find": (1, 1), "split": (1, 1), "replace": (2, 1), "slice": (2, 2)},
                 3: {"len": (0, 0), "pop": (0, 0), "join": (1, 1), "push": (1, 0)}, 0: {"abs": (0, 0)}, 5: {"success": (0, 0)}, 4: {"run": (0, 0)}}
        if recv == 6:
            adm = True
        else:
            sig = table.get(recv, {}).get(fname)
            want = None if sig is None or not sig[1] else (1 if sig[1] == 1 else 0)
            off = lambda t: want is not None and t != 6 and t != want
            adm = sig is not None and sig[0] == na and not (na >= 1 and off(argt)) and not (na >= 2 and sig[0] == 2 and off(argt2))
        recv_expr = "(%s)" % _LIT[recv] if recv in (0,) else _LIT[recv]
        if recv == 3 and fname in ("push", "pop"):
            out.append((pre + "make arr get [1]\narr.%s(%s)\nshout(arr)\n" % (fname, args), "accept" if adm else "reject"))
        else:
            out.append((pre + "make r get %s.%s(%s)\nshout(r)\n" % (recv_expr, fname, args), "accept" if adm else "reject"))
    elif name.startswith("rule_"):
        t = flat[0] if flat else 0
        if t > 7:
            return []
        form = {"rule_not": "make r get not %s\n", "rule_neg": "make r get -%s\n", "rule_condition": "if to say(%s) start shout(1) end\n",
                "rule_index": "make r get %s[0]\n"}[name] % _LIT[t]
        adm = {"rule_not": t in (2, 6, 7), "rule_neg": t in (0, 6), "rule_condition": t in (2, 6, 7), "rule_index": t in (3, 6)}[name]
        out.append((pre + form, "accept" if adm else "reject"))
    return out


def adapter_c09_script(stage, prop, h, r, unlisted, outdir):
    vals, _t = _values(stage, h)
    scripts = _c09_scripts(h, vals, [cl for cl, _c in unlisted])
    tried = []
    for script, expect in scripts:
        for rel in (False, True):
            rc, out = run_script(stage, script, release=rel, timeout=30)
            rejected = any(l.startswith("DIAG:resolve:Error") or l.startswith("DIAG:parse:Error") for l in out.splitlines())
            tried.append({"script": script, "expect": expect, "release": rel, "rc": rc, "output": out[-600:]})
            bad = (expect == "reject" and not rejected) or (expect == "accept" and rejected) or crashed(rc)
            if bad:
                path = _save(outdir, prop, h, {"kind": "script", "script": script, "expect": "crash" if crashed(rc) else expect,
                                               "expect_static": expect, "runs": tried})
                what = "accepted by the static checker, then the interpreter crashed" if crashed(rc) else (
                    "ill-formed program accepted" if expect == "reject" else "well-formed program rejected")
                return Outcome(True, path, "%s: %r" % (what, script[-80:]))
    path = _save(outdir, prop, h, {"kind": "script", "script": scripts[0][0] if scripts else "", "expect": "n/a", "runs": tried})
    return Outcome(False, path, "the real front end agrees with the rule on the rendered script(s)")


# ---- C02: provenance class -> program through the real pipeline (dev build poisons freed memory) ----
_C02_SCRIPTS = {
    "overwrite_c0": [('make x get "a" add "b"\nx get x\nshout(x)\n', ["ab"]),
                     ('make x get "hello " add "world"\nmake y get 1\nx get x\nshout(x)\n', ["hello world"])],
    "overwrite_c1": [('make x get "a" add "b"\nx get x add "c"\nshout(x)\n', ["abc"])],
    "overwrite_c2": [('make x get "a" add "b"\nx get "lit"\nshout(x)\n', ["lit"])],
    "relocate_alias_frame": [('do f(p) start\n  return p\nend\nshout(f("a" add "b"))\nmake t get "zz" add "zz"\nshout(f("c" add "d") add t)\n', ["ab", "cdzzzz"])],
    "relocate_alias_slot": [('do f() start\n  make s get "a" add "b"\n  return s\nend\nshout(f())\nmake k get f()\nmake z get "zz" add "z"\nshout(k)\n', ["ab", "ab"])],
    "relocate_host_result": [('do mk() start\n  return command("echo")\nend\nmake c get mk()\nmake z get "zz" add "zzzzzzzzzzzzzzzzzzzzzzzzzzzzzzzzzzzzzzzzzzzzzz"\nshout(c)\n',
                              ['<process_command program="echo" args=0>'])],
    "detach_alias_slot": [('do f() start\n  make s get "a" add "b"\n  return s\nend\nshout(f())\nmake k get f()\nmake z get "zz" add "z"\nshout(k add z)\n', ["ab", "abzzz"])],
    "detach_alias_frame": [('do f(p) start\n  return p\nend\nshout(f("a" add "b"))\nmake t get "zz" add "zz"\nshout(f("c" add "d") add t)\n', ["ab", "cdzzzz"])],
    "detach_source": [('do f() start\n  return "lit"\nend\nmake k get f()\nmake z get "zz" add "z"\nshout(k add z)\n', ["litzzz"])],
    "detach_owned_slot": [('do f() start\n  return "a" add "b"\nend\nmake k get f()\nmake z get "zz" add "z"\nshout(k add z)\n', ["abzzz"])],
    "detach_array": [
        ('do f(k) start\n  make key get k add ":"\n  return [key, 1, true, null]\nend\nmake t get f("name")\nmake z get "zz" add "zzz"\nshout(t)\nshout(t[0] add z)\n',
         ['["name:", 1, true, null]', "name:zzzzz"]),
        ('do g(k) start\n  make key get k add ":"\n  return [[key], [k add "!"]]\nend\nmake t get g("name")\nmake z get "zzzzz" add "z"\nshout(t)\nshout(t[0][0] add t[1][0] add z)\n',
         ['[["name:"], ["name!"]]', "name:name!zzzzzz"]),
        ('do h(p) start\n  return [[p]]\nend\nmake t get h("a" add "b")\nmake z get "zz" add "zz"\nshout(t[0][0] add z)\n', ["abzzzz"]),
        ('do e() start\n  return []\nend\nshout(e())\n', ["[]"]),
    ],
    "relocate_owned_frame": [('do f() start\n  return "a" add "b"\nend\nmake k get f()\nmake z get "zz" add "z"\nshout(k)\n', ["ab"])],
}


def adapter_c02_script(stage, prop, h, r, unlisted, outdir):
    scripts = _C02_SCRIPTS.get(h.name) or _C02_SCRIPTS.get(h.name.rsplit("_n", 1)[0], [])
    tried = []
    for script, want in scripts:
        for rel in (False, True):
            for mode in ("analysis", "plain"):
                rc, out = run_script(stage, script, mode=mode, release=rel, timeout=30)
                got = [l[4:] for l in out.splitlines() if l.startswith("OUT:")]
                tried.append({"script": script, "release": rel, "mode": mode, "rc": rc, "got": got, "want": want, "tail": out[-300:]})
                if crashed(rc) or got != want:
                    path = _save(outdir, prop, h, {"kind": "script", "script": script, "expect_out": want, "runs": tried})
                    return Outcome(True, path, "program %r: expected output %r, got %r (rc=%d, %s build)" % (
                        script, want, got, rc, "release" if rel else "dev"))
    path = _save(outdir, prop, h, {"kind": "script", "script": scripts[0][0] if scripts else "", "expect_out": scripts[0][1] if scripts else [], "runs": tried})
    return Outcome(False, path, "the real pipeline prints the expected values for the programs of this class")


# ---------------------------------------------------------------------------
# C06: instance (operator class, operand kinds) -> programs that route literals of those kinds
# through function parameters (typed dynamic by the static checker) into the operator
_C06_LITS = {0: ["1", "0", "2.5", "minus 1", "1000000000000000000000"], 1: ['"ab"', '""'], 2: ["true", "false"], 3: ["null"],
             4: ["[]"], 5: ["[1]"]}
_C06_OPS = {0: ["and", "or"], 1: ["add"], 2: ["minus", "times"], 3: ["divide", "mod"], 4: ["na", "pass", "small pass"]}


def c06_programs(name):
    parts = name.split("_")
    if name == "index_target_flatten":
        yield "do f() start\n  return [[1]]\nend\nf()[0] get 2\nshout(1)\n"
        yield "do f() start\n  return [[1]]\nend\nf()[0][0] get 2\nshout(1)\n"
        yield "do f() start\n  return [[1]]\nend\nf()[0].push(1)\nshout(1)\n"
        yield "do f() start\n  return [[1]]\nend\nshout(f()[0].pop())\n"
    elif name == "bare_member":
        yield 'make x get "abc"\nshout(x.len)\n'
        yield 'make x get [1]\nmake y get x.len\nshout(y)\n'
    elif name == "callee_not_a_name":
        yield "do f() start\n  return 1\nend\nmake a get [1]\nshout(a[0]())\n"
        yield "do f() start\n  return 1\nend\nshout(f()())\n"
    elif parts[0] == "binary":
        oc, lk, rk = int(parts[1][1:]), int(parts[2]), int(parts[3])
        for op in _C06_OPS[oc]:
            for l in _C06_LITS[lk]:
                for r in _C06_LITS[rk]:
                    yield "do f(a, b) start\n  return a %s b\nend\nshout(f(%s, %s))\n" % (op, l, r)
    elif parts[0] == "unary":
        for op in ("not", "minus"):
            for l in _C06_LITS[int(parts[1])]:
                yield "do f(a) start\n  return %s a\nend\nshout(f(%s))\n" % (op, l)
    elif parts[0] == "index":
        for a in _C06_LITS[int(parts[1])]:
            for i in _C06_LITS[int(parts[2])]:
                yield "do f(a, i) start\n  return a[i]\nend\nshout(f(%s, %s))\n" % (a, i)
    elif parts[0] == "member":
        # member_<field>_a<n>_r<k>[_<k0>[_<k1>]]
        import itertools, re as _re
        m = _re.match(r"member_(\w+?)_a(\d)_r(\d)((?:_\d)*)$", name)
        field, nargs, rk = m.group(1), int(m.group(2)), int(m.group(3))
        ks = [int(x) for x in m.group(4).split("_") if x]
        params = ["b", "c"][:nargs]
        for recv in _C06_LITS[rk][:2]:
            for lits in itertools.product(*[_C06_LITS[k][:2] for k in ks]):
                yield "do f(%s) start\n  return a.%s(%s)\nend\nshout(f(%s))\n" % (
                    ", ".join(["a"] + params), field, ", ".join(params), ", ".join([recv] + list(lits)))
                # the same call on a receiver that is not a place (the result of a call)
                yield "do same(v) start\n  return v\nend\ndo f(%s) start\n  return same(a).%s(%s)\nend\nshout(f(%s))\n" % (
                    ", ".join(["a"] + params), field, ", ".join(params), ", ".join([recv] + list(lits)))
    elif parts[0] == "cond":
        for kw in ("if to say", "jasi"):
            for l in _C06_LITS[int(parts[1])]:
                yield "do f(a) start\n  %s (a) start\n    return 1\n  end\n  return 0\nend\nshout(f(%s))\n" % (kw, l)


def adapter_c06_script(stage, prop, h, r, unlisted, outdir):
    tried = []
    for script in c06_programs(h.name):
        for rel in (False, True):
            rc, out = run_script(stage, script, mode="analysis", release=rel, timeout=30)
            rejected = "DIAG:resolve:Error" in out or "DIAG:parse:Error" in out
            tried.append({"script": script, "release": rel, "rc": rc, "rejected_statically": rejected, "tail": out[-300:]})
            if crashed(rc) and not rejected:
                path = _save(outdir, prop, h, {"kind": "script", "script": script, "expect": "crash", "runs": tried[-2:]})
                return Outcome(True, path, "accepted program %r crashes the interpreter (rc=%d, %s build): %s" % (
                    script, rc, "release" if rel else "dev", out.strip()[-160:]))
    path = _save(outdir, prop, h, {"kind": "script", "script": tried[0]["script"] if tried else "", "expect": "crash", "runs": tried[:40]})
    return Outcome(False, path, "no program of this class crashes the real interpreter")


# ---------------------------------------------------------------------------
# C01: step class -> programs with the output the documentation gives them
def _c01_num(op, pairs):
    return [("shout(%s %s %s)\n" % (a, op, b), [w]) for a, b, w in pairs]


_C01_SCRIPTS = {
    "sem_number_add": _c01_num("add", [("1", "2", "3"), ("0.5", "0.25", "0.75"), ("10", "0", "10"), ("2", "minus 5", "-3")]),
    "sem_number_minus": _c01_num("minus", [("5", "2", "3"), ("2", "5", "-3"), ("0.75", "0.25", "0.5"), ("1", "0", "1")]),
    "sem_number_times": _c01_num("times", [("3", "4", "12"), ("0.5", "4", "2"), ("7", "0", "0"), ("7", "1", "7")]),
    "sem_number_divide": _c01_num("divide", [("12", "4", "3"), ("1", "4", "0.25"), ("9", "1", "9"), ("2", "8", "0.25")])
        + [("shout(1 divide 0)\nshout(2)\n", "ERR:Division by zero"), ("make z get 0\nshout(0 divide z)\n", "ERR:Division by zero")],
    "sem_number_mod": _c01_num("mod", [("7", "3", "1"), ("8", "4", "0"), ("2", "5", "2")])
        + [("shout(1 mod 0)\nshout(2)\n", "ERR:Division by zero")],
    "sem_number_na": _c01_num("na", [("1", "1", "true"), ("1", "2", "false"), ("2", "1", "false"), ("0", "0", "true"), ("0.5", "0.25", "false"),
                                       ("1790000000000", "1790000000001", "false"), ("1000000", "1000001", "false"),
                                       ("0.001", "0.003", "false"), ("minus 2", "2", "false")]),
    "sem_number_na_inf": [("make a get 10\nmake i get 0\njasi (i small pass 400) start\n  a get a times 10\n  i get i add 1\nend\nshout(a na a)\nmake b get a\nshout(b na a)\nshout(a na 1)\n", ["true", "true", "false"])],
    "sem_number_pass": _c01_num("pass", [("2", "1", "true"), ("1", "2", "false"), ("1", "1", "false"), ("0", "minus 1", "true")]),
    "sem_number_small_pass": _c01_num("small pass", [("1", "2", "true"), ("2", "1", "false"), ("1", "1", "false"), ("minus 1", "0", "true")]),
    "sem_and": [("do t(x) start\n  shout(x)\n  return true\nend\nshout(false and t(1))\nshout(true and t(2))\nshout(null and t(3))\n", ["false", "2", "true", "false"]),
                ("shout(true and false)\nshout(true and null)\nshout(true and true)\nshout(false and true)\n", ["false", "false", "true", "false"])],
    "sem_or": [("do t(x) start\n  shout(x)\n  return false\nend\nshout(true or t(1))\nshout(false or t(2))\nshout(null or t(3))\n", ["true", "2", "false", "3", "false"]),
               ("shout(false or true)\nshout(false or null)\nshout(null or true)\nshout(false or false)\n", ["true", "false", "true", "false"])],
    "sem_compare_0": [("shout(true na true)\nshout(true na false)\nshout(false na false)\nshout(true pass false)\nshout(false pass true)\nshout(false small pass true)\nshout(true small pass false)\nshout(true pass true)\n",
                       ["true", "false", "true", "true", "false", "true", "false", "false"])],
    "sem_compare_1": [("shout(null na null)\nshout(null pass null)\nshout(null small pass null)\n", ["true", "false", "false"])],
    "sem_compare_2": [("shout(null na 1)\nshout(null pass 1)\nshout(null small pass 1)\nshout(null na \"a\")\nshout(null na false)\nshout(null small pass true)\n", ["false"] * 6)],
    "sem_compare_3": [("shout(1 na null)\nshout(1 pass null)\nshout(1 small pass null)\nshout(\"a\" na null)\nshout(false na null)\nshout(true pass null)\n", ["false"] * 6)],
    "sem_string_add": [('shout("ab" add "cd")\nshout("" add "x")\nshout("x" add "")\nmake a get "p" add "q"\nshout(a add a)\n', ["abcd", "x", "x", "pqpq"])],
    "sem_string_na": [('shout("ab" na "ab")\nshout("ab" na "ac")\nshout("ab" na "bb")\nshout("" na "")\n', ["true", "false", "false", "true"])],
    "sem_string_pass": [('shout("b" pass "a")\nshout("a" pass "b")\nshout("ab" pass "aa")\nshout("aa" pass "ab")\nshout("a" pass "a")\n', ["true", "false", "true", "false", "false"])],
    "sem_string_small_pass": [('shout("a" small pass "b")\nshout("b" small pass "a")\nshout("aa" small pass "ab")\nshout("ab" small pass "aa")\nshout("a" small pass "a")\n', ["true", "false", "true", "false", "false"])],
    "sem_unary_0": [("shout(not true)\nshout(not false)\n", ["false", "true"])],
    "sem_unary_1": [("shout(not null)\n", ["true"])],
    "sem_unary_2": [("make a get 5\nshout(minus a)\nshout(minus (minus a))\nshout(minus 0.5)\n", ["-5", "5", "-0.5"])],
    "sem_index_empty": [("make a get []\nshout(a[0])\n", "ERR:Index out of bounds"), ("make a get []\nshout(a[0.5])\n", "ERR:Invalid index"),
                        ("make a get []\nshout(a[minus 1])\n", "ERR:Index out of bounds"), ("make a get []\nshout(a[3])\n", "ERR:Index out of bounds"),
                        ("do f(a, i) start\n  return a[i]\nend\nshout(f([], \"x\"))\n", "ERR:Invalid index"),
                        ("do f(a, i) start\n  return a[i]\nend\nshout(f([], null))\n", "ERR:Invalid index")],
    "sem_if": [("if to say (true) start\n  shout(1)\nend\nif to say (false) start\n  shout(2)\nend\nif to say (null) start\n  shout(3)\nend\nshout(4)\n", ["1", "4"]),
               ("if to say (false) start\n  shout(1)\nend if not so start\n  shout(2)\nend\nif to say (true) start\n  shout(3)\nend if not so start\n  shout(4)\nend\nif to say (null) start\n  shout(5)\nend if not so start\n  shout(6)\nend\n", ["2", "3", "6"]),
               ("do f(c) start\n  if to say (c) start\n    return 1\n  end if not so start\n    return 2\n  end\n  return 3\nend\nshout(f(true))\nshout(f(false))\nshout(f(null))\n", ["1", "2", "2"]),
               ("make i get 0\njasi (i small pass 3) start\n  i get i add 1\n  if to say (i na 2) start\n    next\n  end\n  shout(i)\nend\nmake j get 0\njasi (true) start\n  j get j add 1\n  if to say (j na 2) start\n    comot\n  end if not so start\n    shout(j)\n  end\nend\n", ["1", "3", "1"])],
    "sem_loop": [("make i get 0\njasi (i small pass 3) start\n  shout(i)\n  i get i add 1\nend\nshout(i)\n", ["0", "1", "2", "3"]),
                 ("make i get 0\njasi (true) start\n  i get i add 1\n  if to say (i na 3) start\n    comot\n  end\n  shout(i)\nend\nshout(i)\n", ["1", "2", "3"]),
                 ("make i get 0\njasi (i small pass 4) start\n  i get i add 1\n  if to say (i na 2) start\n    next\n  end\n  shout(i)\nend\n", ["1", "3", "4"]),
                 ("do f() start\n  make i get 0\n  jasi (true) start\n    i get i add 1\n    if to say (i na 2) start\n      return i times 10\n    end\n  end\n  return 0\nend\nshout(f())\n", ["20"]),
                 ("jasi (false) start\n  shout(1)\nend\njasi (null) start\n  shout(2)\nend\nshout(3)\n", ["3"])],
}


def adapter_c01_script(stage, prop, h, r, unlisted, outdir):
    key = h.name
    while key and key not in _C01_SCRIPTS:
        key = key.rsplit("_", 1)[0] if "_" in key else ""
    tried = []
    for script, want in _C01_SCRIPTS.get(key, []) + _C01_SCRIPTS.get(h.name + "_inf", []):
        for rel in (False, True):
            for mode in ("analysis", "plain"):
                rc, out = run_script(stage, script, mode=mode, release=rel, timeout=30)
                got = [l[4:] for l in out.splitlines() if l.startswith("OUT:")]
                if isinstance(want, str):   # "ERR:<kind>": the run must end with that reported runtime error, without crashing
                    bad = crashed(rc) or (want[4:] not in out)
                else:
                    bad = crashed(rc) or got != want
                tried.append({"script": script, "release": rel, "mode": mode, "rc": rc, "got": got, "want": want, "tail": out[-200:]})
                if bad:
                    path = _save(outdir, prop, h, {"kind": "script", "script": script,
                                                   "expect_out": want if not isinstance(want, str) else None,
                                                   "expect_text": want[4:] if isinstance(want, str) else None, "runs": tried[-2:]})
                    return Outcome(True, path, "program %r: documented result %r, got %r (rc=%d, %s build)" % (
                        script, want, got or out.strip()[-120:], rc, "release" if rel else "dev"))
    path = _save(outdir, prop, h, {"kind": "script", "script": "", "runs": tried[:20]})
    return Outcome(False, path, "the programs of this class print the documented results on the real interpreter")


ADAPTERS = {"c01_script": adapter_c01_script, "c02_script": adapter_c02_script, "c06_script": adapter_c06_script, "c07_text": adapter_c07_text, "c09_script": adapter_c09_script, "c07_local_range": adapter_c07_local_range, "c10_layout": adapter_c10_layout, "c11_align": adapter_c11_align, "c13_find": adapter_c13_find, "c13_replace": adapter_c13_replace}


def replay_file(art, path):
    if art.get("kind") == "native-case":
        stage = Stage(art["property"] + ".replay")
        try:
            worst = 0
            for rel in (False, True):
                rc, out = run_case(stage, art["case"], release=rel, stdin=(art.get("stdin") or "").encode() or None)
                print(out)
                if rc == art.get("expect_rc", 1) or crashed(rc):
                    worst = 1
            if worst:
                print("VIOLATION property=%s replay=%s" % (art["property"], path))
            return worst
        finally:
            stage.cleanup()
    if art.get("kind") == "script":
        stage = Stage(art["property"] + ".replay")
        try:
            worst = 0
            for rel in (False, True):
                rc, out = run_script(stage, art["script"], release=rel, stdin=(art.get("stdin") or "").encode() or None, timeout=60)
                print(out[-2000:])
                if art.get("expect") == "crash" and crashed(rc):
                    worst = 1
                if art.get("expect_out") is not None:
                    got = [l[4:] for l in out.splitlines() if l.startswith("OUT:")]
                    if got != art["expect_out"]:
                        worst = 1
                if art.get("expect_text") is not None and (crashed(rc) or art["expect_text"] not in out):
                    worst = 1
            if worst:
                print("VIOLATION property=%s replay=%s" % (art["property"], path))
            return worst
        finally:
            stage.cleanup()
    print("unknown replay kind", art.get("kind"))
    return 2
