"""Property-specific native replay adapters (filled in per property)."""
ADAPTERS = {}


def confirm_known(stage, prop, h, k):
    return False, "no native adapter for %s" % (k.get("key"),)


def replay_file(art, path):
    print("unknown replay kind", art.get("kind"))
    return 2
