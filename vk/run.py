"""Entry point: python3 -m vk.run <ID> <quick|thorough>  (cwd /verif)."""
import concurrent.futures as cf
import importlib
import json
import os
import random
import sys
import time
import traceback

from . import kani, replay
from .registry import Inconclusive
from .stage import Stage, VERIF

EVID_DIR = os.path.join(VERIF, "evidence")
REPLAY_DIR = os.path.join(EVID_DIR, "replay")


def log(*a):
    print(*a, file=sys.stderr, flush=True)


def load_known():
    p = os.path.join(VERIF, "known_findings.json")
    if not os.path.exists(p):
        return []
    return json.load(open(p)).get("findings", [])


def clause_of(check, h):
    d = check.desc
    if d.startswith("never:"):
        d = d[6:].strip()
        return "never:" + d.split("(")[0].strip()[:60]
    if "src/dst overlap" in d:
        return "overlap"
    if d.startswith("unwinding assertion"):
        return "termination" if h.unwind_is_violation else "unwind"
    if ":" in d:
        head = d.split(":", 1)[0].strip()
        if head and len(head) <= 40 and " " not in head.strip():
            return head
    return d.strip()


MEMORY_CLAUSES = ("Offset result and original pointer", "dereference failure", "pointer outside object bounds",
                  "memcpy", "memmove", "memset", "pointer relation", "Kani does not support reasoning about pointer")


def _is_memory_clause(check):
    if "src/dst overlap" in check.desc:
        return False   # copy_nonoverlapping on overlapping ranges is real UB (the dev build aborts on it), not a model artefact
    return check.desc.startswith(MEMORY_CLAUSES) or check.cls in ("pointer_dereference", "safety_check", "pointer_arithmetic")


def match_known(known, prop_id, obligation, clause, input_class):
    for k in known:
        if k.get("property") != prop_id or k.get("status") != "known":
            continue
        key = k.get("key", [])
        if len(key) == 3 and key[0] == obligation and key[1] == clause and key[2] == input_class:
            return k
    return None


def main(argv):
    if len(argv) >= 3 and argv[1] == "--replay":
        return replay.replay_file(argv[0], argv[2])
    prop_id = argv[0].upper()
    tier = argv[1] if len(argv) > 1 else os.environ.get("VERIF_TIER", "quick")
    if tier not in ("quick", "thorough"):
        tier = "quick"
    seed = int(os.environ.get("VERIF_SEED", "0") or 0)
    only = os.environ.get("VERIF_ONLY")  # comma-separated harness name filter (debugging)
    mod = importlib.import_module("vk.props." + prop_id.lower())
    prop = mod.PROP
    known = load_known()
    t0 = time.time()
    os.makedirs(REPLAY_DIR, exist_ok=True)
    stage = Stage(prop_id)
    exit_code = 2
    try:
        exit_code = _run(prop, tier, seed, only, known, stage, t0)
    except Inconclusive as e:
        log("INCONCLUSIVE: %s" % e)
        exit_code = 2
    except Exception:
        traceback.print_exc()
        exit_code = 2
    finally:
        if os.environ.get("VERIF_KEEP"):
            log("scratch kept at", stage.root)
        else:
            stage.cleanup()
    return exit_code


def _run(prop, tier, seed, only, known, stage, t0):
    hs = [h for h in prop.harnesses if tier == "thorough" or h.tier == "quick"]
    if only:
        pats = only.split(",")
        hs = [h for h in hs if any(p in h.name for p in pats)]
    notes = []
    for pc in prop.pre_checks:
        notes += pc(stage, prop) or []
    # inject harness files with exactly the selected instantiations
    by_file = {}
    for h in hs:
        by_file.setdefault(h.file, []).append(h)
    for f, anchor in prop.anchors.items():
        insts = list(dict.fromkeys(h.inst for h in by_file.get(f, []) if h.inst))
        full_mod = stage.inject(anchor, f, insts)
        for h in by_file.get(f, []):
            h.full = full_mod + "::" + h.name
    for (hf, anchor, fn_name, new_name, impl_header) in getattr(prop, "duplicates", []):
        if hf in stage.injected:
            stage.append_to_harness(hf, stage.duplicate_fn(anchor, fn_name, new_name, impl_header))
            notes.append("generated from the current source: copy of %s as %s (its recursive calls go to the stubbed original)" % (fn_name, new_name))
    jobs = []
    # thorough: a quick-tier instance that cadical discharges in under KISSAT_CUTOFF seconds is decided a second
    # time with kissat (an independent SAT back end) by the same worker; kissat is ~3x slower, so the heavy
    # instances are decided once.  The evidence lists which runs were re-decided.
    kissat_cutoff = float(os.environ.get("VERIF_KISSAT_CUTOFF", "60"))
    for h in hs:
        jobs.append((h, None))
    rnd = random.Random(seed)
    rnd.shuffle(jobs)
    # longest first helps the tail; keep the shuffle as tie-break
    jobs.sort(key=lambda j: -j[0].timeout)
    workers = int(os.environ.get("VERIF_JOBS", "0")) or 16
    budget = _Budget(float(os.environ.get("VERIF_MEM_GB", "56")))
    log("[%s/%s] %d harness runs, <=%d concurrent, memory budget %.0f GB" % (
        prop.id, tier, len(jobs), workers, budget.total))

    results = []

    def work(job):
        h, solver = job
        tmo = h.timeout if tier == "quick" else max(h.timeout, 1800)
        if os.environ.get("VERIF_TIMEOUT"):   # probing aid
            tmo = int(os.environ["VERIF_TIMEOUT"])
        # thorough gives the heavy instances more room; light ones (<= 4 GB) keep a small cap so many run at once
        mem = h.mem_gb if tier == "quick" else (max(h.mem_gb, 12) if h.mem_gb > 4 else 2 * h.mem_gb)
        charge = min(mem, h.weight_gb) if h.weight_gb else mem
        budget.acquire(charge)
        try:
            r = kani.run_harness(stage, h.full, h.profile, tmo, mem, solver=solver, should_panic=h.should_panic)
        finally:
            budget.release(charge)
        if r.verdict != "success":
            _save_log(prop, h, solver, r)
        log("  %-44s %-1s %-7s %-12s %6.1fs  checks=%d failed=%d %s" % (
            h.name, h.profile, r.solver, r.verdict, r.wall, r.n_checks, len(r.failed), r.reason))
        out = [(h, solver, r)]
        if (solver is None and tier == "thorough" and h.kissat and h.tier == "quick"
                and r.verdict == "success" and r.wall < kissat_cutoff):
            out.extend(work((h, "kissat")))
        return out

    with cf.ThreadPoolExecutor(max_workers=workers) as ex:
        for out in ex.map(work, jobs):
            results.extend(out)

    # ---------------- classify ----------------
    violations, known_hits, inconclusive = [], [], []
    discharged = 0
    total_checks = 0
    cex_records = []
    seen_known = set()
    for h, solver, r in results:
        total_checks += r.n_checks
        if r.verdict == "success":
            discharged += 1
            continue
        if r.verdict == "inconclusive":
            inconclusive.append((h, solver, r.reason))
            _save_log(prop, h, solver, r)
            continue
        # failure: group failed checks by clause
        clauses = []
        for c in r.failed:
            cl = clause_of(c, h)
            if cl not in [x[0] for x in clauses]:
                clauses.append((cl, c))
        if all(cl == "unwind" for cl, _ in clauses):
            inconclusive.append((h, solver, "unwinding bound too small: " + clauses[0][1].loc))
            _save_log(prop, h, solver, r)
            continue
        clauses = [(cl, c) for cl, c in clauses if cl != "unwind"]
        # failures of CBMC's memory model (pointer arithmetic leaving a model object, invalid
        # dereference) are either a too-small model arena or a memory-safety candidate: they are
        # never handed to a class-level script adapter.  Alone they go through native playback.
        mem = [(cl, c) for cl, c in clauses if _is_memory_clause(c)]
        rest = [(cl, c) for cl, c in clauses if not _is_memory_clause(c)]
        if mem and not rest:
            rest = mem
            if h.replay != "playback":
                inconclusive.append((h, solver, "memory-model check failed (model arena too small, or a memory-safety "
                                     "candidate that no script can confirm): " + mem[0][1].desc))
                continue
        clauses = rest
        unlisted = []
        for cl, c in clauses:
            k = match_known(known, prop.id, h.obligation, cl, h.input_class)
            if k is not None:
                ok, detail = replay.confirm_known(stage, prop, h, k)
                rec = {"harness": h.name, "clause": cl, "check": c.as_dict(), "known": k["key"],
                       "native_replay": detail}
                cex_records.append(rec)
                if ok:
                    if tuple(k["key"]) not in seen_known:
                        seen_known.add(tuple(k["key"]))
                        known_hits.append(k)
                else:
                    inconclusive.append((h, solver, "known finding %s did not reproduce natively: %s" % (k["key"], detail)))
            else:
                unlisted.append((cl, c))
        if unlisted:
            _save_log(prop, h, solver, r)
            outcome = replay.replay_failure(stage, prop, h, r, unlisted, REPLAY_DIR)
            rec = {"harness": h.name, "clauses": [cl for cl, _ in unlisted],
                   "checks": [c.as_dict() for _, c in unlisted][:5], "replay": outcome.as_dict()}
            cex_records.append(rec)
            if outcome.reproduced:
                violations.append((h, unlisted, outcome))
            else:
                inconclusive.append((h, solver, "counterexample did not reproduce natively (%s)" % outcome.detail))

    for pc in prop.post_checks:
        notes += pc(stage, prop) or []

    wall = time.time() - t0
    _write_evidence(prop, tier, seed, results, discharged, total_checks, violations, known_hits,
                    inconclusive, cex_records, notes, wall)

    for k in known_hits:
        print("KNOWN-FINDING: property=%s %s" % (prop.id, k["what"]))
    for h, unl, outcome in violations:
        print("VIOLATION property=%s replay=%s" % (prop.id, outcome.path))
        log("  violated in %s: %s" % (h.name, "; ".join("%s [%s]" % (c.desc, c.loc) for _, c in unl[:3])))
    for h, solver, why in inconclusive:
        log("INCONCLUSIVE %s (%s): %s" % (h.name, solver or "cadical", why))
    sys.stdout.flush()
    if violations:
        return 1
    if inconclusive:
        return 2
    log("[%s/%s] %d/%d harness runs discharged, %d known finding(s), %.0fs" % (
        prop.id, tier, discharged, len(results), len(known_hits), wall))
    return 0


class _Budget:
    """Weighted semaphore: the sum of the ulimit caps of running harnesses stays below the budget."""

    def __init__(self, total):
        import threading
        self.total, self.free, self.cv = total, total, threading.Condition()

    def acquire(self, n):
        n = min(n, self.total)
        with self.cv:
            while self.free < n:
                self.cv.wait()
            self.free -= n

    def release(self, n):
        n = min(n, self.total)
        with self.cv:
            self.free += n
            self.cv.notify_all()


def _save_log(prop, h, solver, r):
    d = os.path.join(EVID_DIR, "logs")
    os.makedirs(d, exist_ok=True)
    with open(os.path.join(d, "%s_%s_%s.log" % (prop.id, h.name, solver or "cadical")), "w") as f:
        f.write(r.log[-400000:])


def _write_evidence(prop, tier, seed, results, discharged, total_checks, violations, known_hits,
                    inconclusive, cex_records, notes, wall):
    funcs = set()
    samples = []
    per = []
    solver_time = 0.0
    nontrivial = set()
    for h, solver, r in results:
        funcs.update(r.functions)
        if r.verification_time:
            solver_time += r.verification_time
        if r.verdict == "success" and (r.covers_sat or getattr(r, "expected_panics", None)):
            nontrivial.add(h.name + "/" + h.profile)
        per.append({
            "harness": h.name, "obligation": h.obligation, "profile": h.profile,
            "solver": r.solver, "verdict": r.verdict, "reason": r.reason, "shape": h.shape,
            "cbmc_checks": r.n_checks, "failed_checks": len(r.failed),
            "covers_satisfied": [c.desc for c in r.covers_sat],
            "covers_unsatisfied": [c.desc for c in r.covers_unsat],
            "cbmc_time_s": r.verification_time, "wall_s": round(r.wall, 1),
            "input_class": h.input_class, "contract_stubs": list(h.contract_stubs),
            "stubs_applied": r.stubs, "cbmc_stats": r.stats,
        })
        if len(samples) < 12 and r.covers_sat:
            samples.append({"harness": h.name, "shape": h.shape,
                            "witnessed_cases": [c.desc for c in r.covers_sat][:6]})
    if not samples:
        samples = [{"harness": h.name, "shape": h.shape} for h, _s, _r in results[:3]] or [{"none": True}]
    # crate functions only; drop std monomorphisations
    crate_funcs = sorted(f for f in funcs)
    ev = {
        "property_id": prop.id,
        "tier": tier,
        "seed": seed,
        "level": "model_checking",
        "coverage": {
            "evaluations": len(results),
            "distinct_nontrivial": len(nontrivial),
            "rule": ("one evaluation = one Kani harness instance (a concrete shape: sizes/counts/schedule) decided by "
                     "CBMC+SAT over all symbolic contents within the shape; an instance is non-trivial iff the solver "
                     "verdict is SUCCESSFUL and every kani::cover! reachability witness in it is SATISFIED; distinct by harness name"),
            "samples": samples,
            "obligations": total_checks,
            "discharged": total_checks - sum(len(r.failed) + r.undetermined for _h, _s, r in results),
            "exhaustive": False,
            "states": None,
            "explanation": "states/transitions are not enumerated: the state space is explored symbolically by the SAT solver",
            "technique": "bounded model checking of the compiled Rust (Kani 0.68 -> CBMC 6.11 -> CaDiCaL%s)" % (
                "; quick-tier instances cadical decided in under %.0f s re-decided with kissat" % float(os.environ.get("VERIF_KISSAT_CUTOFF", "60")) if tier == "thorough" else ""),
            "functions_encoded": crate_funcs[:400],
            "functions_encoded_count": len(crate_funcs),
            "harness_runs": per,
            "obligation_table": [{"id": o.id, "title": o.title, "functions": list(o.functions), "bound": o.bound}
                                 for o in prop.obligations],
            "outside_bounds": prop.outside,
            "stubs": prop.stubs,
            "solver_time_s": round(solver_time, 2),
            "harnesses_discharged": discharged,
            "inconclusive": [{"harness": h.name, "solver": s or "cadical", "why": w} for h, s, w in inconclusive],
            "counterexamples": cex_records,
            "known_findings_hit": [k["key"] for k in known_hits],
            "notes": notes,
        },
        "assumptions": prop.assumptions,
        "wall_s": round(wall, 1),
        "violations": len(violations),
    }
    del ev["coverage"]["states"]
    os.makedirs(EVID_DIR, exist_ok=True)
    partial = ".partial" if os.environ.get("VERIF_ONLY") else ""
    if os.environ.get("VERIF_EVIDENCE_TAG"):   # seeded-change runs must not overwrite the real evidence
        partial = "." + os.environ["VERIF_EVIDENCE_TAG"] + ".partial"
    with open(os.path.join(EVID_DIR, prop.id + partial + ".json"), "w") as f:
        json.dump(ev, f, indent=1)


if __name__ == "__main__":
    sys.exit(main(sys.argv[1:]))
