"""Declarative description of what a property's check consists of.

A property module (vk/props/cNN.py) exports PROP = Property(...).  The driver
turns each Harness into one macro instantiation line appended to the staged
harness file, so the shape list here is the single source of truth for the
bounds that are reported in the evidence.
"""


class Harness:
    def __init__(self, name, file, inst, obligation, profile="R", tier="quick",
                 timeout=600, mem_gb=6, shape=None, input_class="any",
                 replay="playback", replay_args=None, unwind_is_violation=False,
                 contract_stubs=(), note="", kissat=True, should_panic=False, weight_gb=None):
        self.name = name                  # harness fn name (unique per property)
        self.file = file                  # harness source in /verif/harness
        self.inst = inst                  # macro instantiation line ('' when the fn is written out)
        self.obligation = obligation      # e.g. "12.a"
        self.profile = profile            # 'A' debug assertions on, 'R' off
        self.tier = tier                  # 'quick' (run in both tiers) or 'thorough'
        self.timeout = timeout
        self.mem_gb = mem_gb              # address-space cap (ulimit -v) of the CBMC process
        self.weight_gb = weight_gb        # expected resident size: what the scheduler's memory budget is charged (default: the cap)
        self.shape = shape or {}          # bounds of this instance, reported verbatim
        self.input_class = input_class    # role key used to match known findings
        self.replay = replay              # adapter name in vk.replay.ADAPTERS
        self.replay_args = replay_args or {}
        self.unwind_is_violation = unwind_is_violation
        self.contract_stubs = tuple(contract_stubs)
        self.note = note
        self.should_panic = should_panic  # #[kani::should_panic]: assertion-class failures are the expected panics
        self.kissat = kissat              # re-decide with kissat in the thorough tier
        self.full = None                  # filled by the driver


class Obligation:
    def __init__(self, oid, title, functions=(), bound=""):
        self.id, self.title, self.functions, self.bound = oid, title, tuple(functions), bound


class Property:
    def __init__(self, pid, anchors, obligations, harnesses, assumptions, stubs=(),
                 outside=(), pre_checks=(), post_checks=(), duplicates=()):
        self.id = pid
        self.anchors = anchors            # {harness file: anchored source file in /repo}
        self.obligations = obligations
        self.harnesses = harnesses
        self.assumptions = list(assumptions)
        self.stubs = list(stubs)
        self.outside = list(outside)      # what lies outside the bounds
        self.pre_checks = list(pre_checks)    # callables(stage, ctx) -> list of notes / raise Inconclusive
        self.post_checks = list(post_checks)
        # (harness file, anchored source, fn name, new name, impl header): routine copies of DESIGN.md 2.9
        self.duplicates = list(duplicates)


class Inconclusive(Exception):
    pass
