"""Counterexample -> native replay against the real build (DESIGN.md 2.6).

Adapters:
  playback : Kani concrete playback of the failing harness, run natively as a unit
             test of the staged crate.  Natively the kani::stub attributes are
             inert, so the real mmap / memchr / fmt code runs.  Valid for
             harnesses whose stubs are environment stubs.
  native   : property-specific native driver (vk/native.py) fed with values decoded
             from the counterexample; used for harnesses with contract stubs and
             for findings with a user-level form (scripts through the pipeline).
"""
import json
import os
import re
import subprocess
import time

from . import kani
from .stage import Stage, VERIF


class Outcome:
    def __init__(self, reproduced, path, detail, extra=None):
        self.reproduced, self.path, self.detail = reproduced, path, detail
        self.extra = extra or {}

    def as_dict(self):
        d = {"reproduced": self.reproduced, "path": self.path, "detail": self.detail}
        d.update(self.extra)
        return d


def _env(profile):
    env = dict(os.environ)
    env["CARGO_NET_OFFLINE"] = "true"
    v = "true" if profile == "A" else "false"
    env["CARGO_PROFILE_DEV_DEBUG_ASSERTIONS"] = v
    env["CARGO_PROFILE_TEST_DEBUG_ASSERTIONS"] = v
    env["CARGO_TERM_COLOR"] = "never"
    env["RUST_BACKTRACE"] = "0"
    return env


def _run(cmd, cwd, env, timeout):
    try:
        p = subprocess.run(cmd, cwd=cwd, env=env, stdout=subprocess.PIPE, stderr=subprocess.STDOUT,
                           text=True, errors="replace", timeout=timeout)
        return p.returncode, p.stdout
    except subprocess.TimeoutExpired as e:
        out = e.stdout.decode(errors="replace") if isinstance(e.stdout, bytes) else (e.stdout or "")
        return 124, out + "\n[timeout]"


def run_playback_tests(stage, profile, name_filter, timeout=900):
    """cargo kani playback on the staged crate; returns (any_failed, n_tests, output_tail)."""
    cmd = ["cargo", "kani", "playback", "-Z", "concrete-playback", "--", name_filter, "--test-threads", "1"]
    rc, out = _run(cmd, stage.crate, _env(profile), timeout)
    m = re.search(r"test result: (\w+)\. (\d+) passed; (\d+) failed", out)
    if not m:
        return None, 0, out[-3000:]
    failed = int(m.group(3))
    ran = int(m.group(2)) + failed
    tail = "\n".join(l for l in out.splitlines() if "panicked at" in l or l.startswith("test ") or
                     "SIG" in l or (l and not l.startswith(("warning", " ", "=")) and "-->" not in l))[-3000:]
    return failed > 0, ran, tail


TEST_RE = re.compile(r"((?:///[^\n]*\n|\s*\n)*#\[test\]\nfn (kani_concrete_playback_\w+)\(\) \{.*?\n\}\n)", re.S)


def extract_tests(out, short):
    tests = []
    for t, n in TEST_RE.findall(out):
        if ("_" + short + "_") not in n:
            continue
        if "Check for `cover`" in t:
            continue
        tests.append((t.strip() + "\n", n))
    return tests


def adapter_playback(stage, prop, h, r, unlisted, outdir):
    short = h.name
    # 1. ask Kani for the concrete values (print mode: `inplace` writes into macro bodies)
    tdir = os.path.join(stage.targets, "%s_cp" % short)
    cmd = ["cargo", "kani", "--harness", h.full, "--exact", "-Z", "stubbing", "-Z", "concrete-playback",
           "--concrete-playback=print", "--target-dir", tdir]
    env = _env(h.profile)
    shell = "ulimit -v %d; exec timeout -k 10 %d %s" % (
        16 * 1024 * 1024, max(h.timeout, 900), " ".join("'%s'" % a for a in cmd))
    rc, out = _run(["bash", "-c", shell], stage.crate, env, max(h.timeout, 900) + 60)
    subprocess.run(["rm", "-rf", tdir])
    tests = extract_tests(out, short)
    synthetic = False
    if not tests:
        # harness without symbolic inputs (or Kani printed nothing): run it natively as it is
        synthetic = True
        tests = [("#[test]\nfn kani_concrete_playback_%s_0() {\n    let concrete_vals: Vec<Vec<u8>> = vec![];\n"
                  "    kani::concrete_playback_run(concrete_vals, %s);\n}\n" % (short, short),
                  "kani_concrete_playback_%s_0" % short)]
    staged = stage.injected[h.file][1]
    with open(staged, "a") as f:
        for t, _n in tests:
            f.write("\n" + t + "\n")
    path = os.path.join(outdir, "%s_%s.json" % (prop.id, short))
    art = {"property": prop.id, "kind": "kani-playback", "harness": h.name, "harness_file": h.file,
           "instantiation": h.inst, "profile": h.profile, "obligation": h.obligation,
           "failed_checks": [c.as_dict() for _cl, c in unlisted],
           "unit_tests": [t for t, _n in tests], "synthetic_empty_values": synthetic}
    failed, ran, tail = run_playback_tests(stage, h.profile, "kani_concrete_playback_" + short + "_")
    art["native"] = {"tests_run": ran, "failed": bool(failed), "output": tail}
    json.dump(art, open(path, "w"), indent=1)
    if failed is None:
        return Outcome(False, path, "native playback build/run failed")
    if "Not enough det vals found" in tail or "det vals" in tail:
        # the playback library ran out of recorded values: the test does not carry the counterexample
        return Outcome(False, path, "Kani printed no usable concrete values for this counterexample; native playback cannot be set up")
    if failed:
        return Outcome(True, path, "native playback of the counterexample fails on the real code (%d test(s))" % ran)
    return Outcome(False, path, "native playback passes: counterexample depends on a stub or on the memory model")


ADAPTERS = {"playback": adapter_playback}


def replay_failure(stage, prop, h, r, unlisted, outdir):
    ad = ADAPTERS.get(h.replay)
    if ad is None:
        from . import native
        ad = native.ADAPTERS[h.replay]
    try:
        return ad(stage, prop, h, r, unlisted, outdir)
    except Exception as e:  # a broken adapter is an inconclusive result, never a verdict
        return Outcome(False, "", "replay adapter error: %r" % (e,))


def confirm_known(stage, prop, h, k):
    """Re-establish a listed known finding natively on the current tree."""
    from . import native
    try:
        return native.confirm_known(stage, prop, h, k)
    except Exception as e:
        return False, "known-finding replay error: %r" % (e,)


def replay_file(prop_id, path):
    """./check <id> --replay <path>: exit 1 if the stored counterexample reproduces on /repo's current tree."""
    art = json.load(open(path))
    kind = art.get("kind")
    if kind == "kani-playback":
        import importlib
        prop = importlib.import_module("vk.props." + art["property"].lower()).PROP
        stage = Stage(art["property"] + ".replay")
        try:
            stage.inject(prop.anchors[art["harness_file"]], art["harness_file"],
                         [art["instantiation"]] if art["instantiation"] else [])
            staged = stage.injected[art["harness_file"]][1]
            with open(staged, "a") as f:
                for t in art["unit_tests"]:
                    f.write("\n" + t + "\n")
            failed, ran, tail = run_playback_tests(stage, art["profile"],
                                                   "kani_concrete_playback_" + art["harness"] + "_")
            print(tail)
            if failed:
                print("VIOLATION property=%s replay=%s" % (art["property"], path))
                return 1
            return 0 if failed is False else 2
        finally:
            stage.cleanup()
    from . import native
    return native.replay_file(art, path)
