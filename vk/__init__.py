"""vk: driver for solver-based (Kani/CBMC) checking of /repo's current tree.

Stdlib only.  See /verif/DESIGN.md section 2 for the architecture.
"""
