"""Regenerates /verif/MANIFEST.json from the table below:  python3 -m vk.manifest"""
import json
import os

from .stage import VERIF

TECH = "bounded model checking of the compiled Rust with Kani 0.68 / CBMC 6.11 (SAT: CaDiCaL, kissat cross-check)"

CLAIMED = {
    "C12": dict(
        text=("Bounded model checking over the compiled pool code: one inductive step of Pool::alloc / Pool::dealloc "
              "from an arbitrary state satisfying the representation invariant (so histories of any length are covered "
              "through the invariant), size_class for all 2^32 sizes, PoolSet dispatch/fallback/contains/alloc_str at "
              "every class boundary the property names. Bounded, not a proof: slot counts are concretised (4; 6/8 thorough; 1 per class for PoolSet)."),
        ref="DESIGN.md 3 (C12)",
        note=("Trusted: Kani/CBMC/CaDiCaL; virtual-memory stubs (reserve = fresh aligned model object of 256 B..4 KiB, commit succeeds); "
              "step proofs lay the Pool over harness-owned buffers (Pool::new itself is exercised from its initial state); "
              "slot counts 4/6/8 instead of 16384..512; both debug-assertion profiles modelled."),
    ),
}

CLAIMED["C11"] = dict(
    text=("Bounded model checking of the real bump-arena code: one inductive step of every operation (alloc_raw/alloc_raw_bump via "
          "allocate, allocate_zeroed, alloc_uninit_slice; grow, grow_zeroed, shrink, reset, decommit) from an arbitrary state satisfying "
          "the representation invariant, over all 64-bit sizes and offsets, with the OS commit call free to fail; scratch-arena "
          "flip/flop, nested borrow/drop and re-initialisation; both debug-assertion profiles (poison fills included). "
          "Bounded: capacity 4 chunks, alignments <= 4096 (2^13..2^16 in the known-finding instance), content checks in a 512-byte window."),
    ref="DESIGN.md 3 (C11)",
    note=("Trusted: Kani/CBMC/CaDiCaL; recording stubs for reserve/commit/decommit/release (commit may fail); the arena state is "
          "constructed directly from symbolic commit/offset; real mmap/mprotect behaviour, Windows/wasm back ends and std's Vec growth "
          "policy are outside the claim."),
)

CLAIMED["C13"] = dict(
    text=("Bounded model checking, differential against the definition: tw::find equals first-occurrence on every branch (needle 0,1,2,3..16 and "
          "the >16-byte path), terminates and never panics; replace equals left-to-right non-overlapping substitution (and the insert-between-"
          "characters rule for the empty pattern) with valid UTF-8 output; slice/len follow the character-position specification for ALL f64 "
          "bounds (NaN, infinities, huge, negative, fractional). Bounded: hay <= 6 x needle <= 3 over all bytes; needle 16/17, hay <= 19 over {a,b}; "
          "replace hay <= 4, from/to <= 2; slice <= 3 characters of 1-2 bytes."),
    ref="DESIGN.md 3 (C13)",
    note=("Trusted: Kani/CBMC/SAT; memchr-rs replaced by a scalar loop with its documented contract; the long-needle path is decided modularly "
          "(factorisation contract + find for every anchor) in the quick tier and monolithically in the thorough tier; replace is checked with find "
          "replaced by its specification and with a container model of ArenaString (appends into pre-allocated capacity; Vec growth is std's code "
          "and the arena grow path is C11); to_number/trim/case mapping delegate to std; split/join did not fit (smallest instance: 2400 s cap) and is outside the claim."),
)
CLAIMED["C16"] = dict(
    text=("Bounded model checking of the sequential capture kernel read_captured_stream over a reader that delivers a symbolic payload in every "
          "chunk schedule: the result is complete with the overflow flag untouched, or the flag is set (naming this stream unless another stream "
          "overflowed first) -- a shortened buffer never coexists with a clear flag; exactly-at-limit is not an overflow; stream codes round-trip. "
          "This is the kernel only: thread/OS schedules, the poll loop, kill/wait and the nine policy combinations are outside what a SAT encoding reaches."),
    ref="DESIGN.md 3 (C16)",
    note=("Trusted: Kani/CBMC/SAT; the pipe is a Read model returning the payload in a concrete chunk schedule then 0; payload <= 4 bytes, cap <= 5; "
          "concurrency (reader threads vs wait loop vs child exit) is NOT modelled -- Kani has no thread model."),
)
CLAIMED["C17"] = dict(
    text=("Bounded model checking of the line-assembly kernel behind read_line (sys::unix::read_line_from) called two and three times over a "
          "BufRead model that delivers the input in every chunk schedule: each call returns exactly the next line without its terminator, consumes "
          "exactly the line and its newline (nothing after it is lost), returns the partial last line at end of input and then empty strings."),
    ref="DESIGN.md 3 (C17)",
    note=("Trusted: Kani/CBMC/SAT; std's StdinLock/BufReader implements the BufRead contract the model states (fill_buf = unread part of the "
          "buffered chunk, next read when empty; consume advances); memchr scalar stub; container model for the 8 KiB line buffer (appends into "
          "pre-allocated capacity); quick: input <= 3 bytes over {newline,x,y} in every chunk schedule, one multi-byte and one three-call instance (one scheduling wave, about 5 min); thorough: 4 bytes, all multi-byte and three-call instances; lines > 8 KiB, EINTR and invalid UTF-8 outside."),
)
CLAIMED["C18"] = dict(
    text=("Bounded model checking of the real limit check for ALL cap and count values: first_exceeded_limit reports a limit iff some metric "
          "is strictly above its cap, the first one in the staged order, with the real observed/limit numbers, including the derived summary and "
          "liveness bounds (saturating arithmetic); the resolver passes DEFAULT_CAPS; on the over-limit path it leaves no optimisation plan, emits "
          "exactly one warning and no error and never starts the first expensive pass, while within limits the passes do start."),
    ref="DESIGN.md 3 (C18)",
    note=("Trusted: Kani/CBMC/SAT; fact tables modelled by their lengths plus 0..2 real FunctionInfo records; contract stubs for count_program / "
          "build_program_with_counts in the skip-path harness; that an over-limit program then EXECUTES with unchanged results is the C03 "
          "differential (not applicable) and is not claimed."),
)

CLAIMED["C07"] = dict(
    text=("Bounded model checking of the scanner by per-routine (assume-guarantee) contracts from an ARBITRARY cursor: every helper and scanning "
          "routine (skip_whitespace, skip_comment, read_word, try_consume_word, scan_punctuation, scan_number, scan_identifier_or_keyword, "
          "scan_string) and the next_token dispatcher keep the cursor inside the text and on a character boundary, make progress, and every "
          "diagnostic/label span they emit is inside the text, ordered and on boundaries; the building blocks of the diagnostic renderer "
          "(line/column computation, tab expansion) are total for every boundary position; one inductive step of the local-range indexing "
          "contract the analyses rely on. Front end = scanner + renderer building blocks + that contract; parser and resolver totality are argued, not checked."),
    ref="DESIGN.md 3 (C07)",
    note=("Trusted: Kani/CBMC/SAT; texts of exactly N <= 3..4 bytes over ASCII + 2-byte UTF-8; recursion in scan_number and the routines under the "
          "dispatcher are cut by contract stubs whose guarantees are the other obligations; emit_error replaced by a span-checking stub; "
          "memchr2 scalar stub; ArenaString container model. render_diagnostic as a whole, the parser and the resolver do not fit (stated)."),
)
CLAIMED["C10"] = dict(
    text=("Bounded relational model checking of the scanner: started before any separator (whitespace run, # comment ended by LF/CR/CRLF) the "
          "dispatcher returns the same token, span, cursor and diagnostics as started after it; scan_number / scan_identifier_or_keyword / "
          "scan_string are translation invariant; the multi-word keywords are recognised with any whitespace run between their words and roll "
          "back to the same cursor otherwise. Together these give identical token streams for two layouts of one token sequence (the induction "
          "over tokens and the parser half are arguments)."),
    ref="DESIGN.md 3 (C10)",
    note=("Trusted: Kani/CBMC/SAT; 10 separator shapes x suffix <= 2 (3 thorough) symbolic bytes; shifted texts <= 2 (3) bytes; deterministic "
          "models of the scanning routines in the separator obligation; parser not executed (token-only interface checked syntactically)."),
)
CLAIMED["C09"] = dict(
    text=("Bounded model checking of the real resolver routines, one rule on one node with the nesting context symbolic: the operator/condition/"
          "index type table for ALL 9x9 static type combinations (rejected iff statically wrong, category named), comot/next iff inside a loop, "
          "return iff inside a function, loop bodies one level deeper, function bodies entered with loop depth 0 and their own function context, "
          "use of / assignment to / {placeholder} of a name that is not in scope, calls of functions not in scope, builtin arity, and member calls (13 method names x 0..2 arguments x all receiver and "
          "argument types: unknown method, wrong argument count, statically wrong argument type) against an independent method table."),
    ref="DESIGN.md 3 (C09)",
    note=("Trusted: Kani/CBMC/SAT; recursive calls replaced by contract stubs (infer_expr_type returns ANY static type; check_block records its "
          "context); the member-call instances enter a copy of check_expr regenerated from the current source on every run "
          "(its recursive calls go to a counting stub); composition over whole programs is argued; process-command builder methods, "
          "duplicate/reserved-name rules of predeclare_block_functions "
          "(HashSet/SipHash) and parser-enforced rules are outside the claim."),
)
CLAIMED["C04"] = dict(
    text=("Bounded model checking of the resolver's symbol-table lookups for every table content within the shape: a variable name resolves to "
          "the nearest enclosing declaration (innermost scope, most recent entry) or to nothing; a function name resolves to the innermost "
          "enclosing definition or is not visible. This is the lexical-lookup core of the property; scope maintenance and the runtime's "
          "id-directed lookups are argued, not checked (they do not fit, see level_note)."),
    ref="DESIGN.md 3 (C04)",
    note=("Trusted: Kani/CBMC/SAT; scope stacks <= 3 scopes x 2 entries over names {a,b}/{f,g}, query name concrete per instance; the routines "
          "that maintain the tables (check_block, check_function_body with parameters, Assign) and the runtime environment lookups write through "
          "pointers read back from arena memory and ran out of memory in every formulation tried."),
)
CLAIMED["C15"] = dict(
    text=("Bounded model checking of the command builder and validation for ALL fourteen cap values: validate accepts exactly the commands within "
          "every documented limit (program, counts, per-argument, totals, cwd, env key/value incl. '=' and NUL, stdin, timeout/default), exact at "
          "every boundary, and the accepted spec is byte-for-byte and count-for-count what was configured (no splitting, reordering or dropping); "
          "set_env keeps one pair per key with the last value; clone_into copies field for field."),
    ref="DESIGN.md 3 (C15)",
    note=("Trusted: Kani/CBMC/SAT; <= 2 args, <= 2 env pairs, strings <= 2 bytes (3 for validate_named_text); std::process::Command's verbatim "
          "argv/env/cwd hand-over and the evaluator-side gate/argument evaluation (Runtime::eval_process_command_call*) are outside the claim."),
)

CLAIMED["C02"] = dict(
    text=("Bounded model checking of the reclamation points at unit-contract level, for every string VALUE and ALIASING a caller can hand them "
          "(provenance classes x 2 symbolic bytes), with the location of the result pinned: ArenaCow::promote keeps the bytes, never leaves data "
          "on the frame and copies pool-slot aliases; overwrite_slot stores the assigned value even when it aliases the slot's own storage "
          "(`x get x`); detach_return_value makes what a return statement hands out independent of pool slots and frame temporaries, element by element for returned "
          "arrays (one step of the recursion, 0..2 elements of any kind); "
          "relocate_return_value keeps a returned string intact across the frame reset and the caller's next frame and pool allocations. "
          "NOT the whole-program differential the property states (that needs the evaluator): the contracts of the places where memory is given back."),
    ref="DESIGN.md A.1 / 3 (C02)",
    note=("Trusted: Kani/CBMC/SAT; strings of 2 symbolic bytes; pools laid over small non-split byte buffers (two slots in each of the two smallest "
          "classes, other classes exhausted), PoolSet::contains replaced by its two-class straight-line equivalent (contains itself is C12); arena "
          "models of 128..960 bytes; arrays in promote/relocate, host handles, loop-iteration resets and expression-level interleavings (`x add f()` where f reassigns x) "
          "are outside the claim; composition of the contracts over whole programs is argued."),
)

CLAIMED["C01"] = dict(
    text=("Bounded model checking of single evaluation steps of the real evaluator against an oracle written from the language documentation, "
          "for ALL operand values within the step's shape: number op number is the IEEE double operation for all pairs of doubles (add, minus, times "
          "bit for bit; divide exactly on whole numbers -128..127 and number-vs-`Division by zero` on all doubles; pass/small pass; `na` for equal and "
          "for clearly different numbers), and/or with left-to-right order, short circuit and null as falsy, the comparison tables of booleans and "
          "null, string concatenation and byte-order comparison, not / unary minus, the error kinds of indexing, if/else branch selection, and the "
          "jasi protocol (test before every pass; comot, next, return). NOT the whole-program statement of the property: one step per construct; "
          "parser, calls, variables, interpolation, built-ins and the composition over programs are outside."),
    ref="DESIGN.md A.1 (C01)",
    note=("Trusted: Kani/CBMC/SAT and CBMC's IEEE-754 model; the recursive eval_expr calls and nested blocks are replaced by stubs that hand out prepared "
          "values / ways of ending and record the order of evaluation; the operator steps enter a copy of eval_expr regenerated from the current source on "
          "every run; mod is only required to yield a number (no exact fmod model); strings are 2 ASCII bytes; the undocumented tolerance of `na` on numbers "
          "is not pinned."),
)

CLAIMED["C06"] = dict(
    text=("Bounded model checking of single evaluation steps of the real evaluator with the VALUES of the sub-expressions symbolic in kind and "
          "content (the static checker types parameters, array elements and several built-in results as dynamic, so every kind reaches every "
          "position at run time): a binary operator (5 classes x 5 x 5 operand kinds), a unary operator, an index expression, an `if to say`/`jasi` "
          "condition, and a method call (11 names x 0..2 arguments x 5 receiver kinds x argument kinds) end with a value or a REPORTED runtime "
          "error - no panic, unreachable!, unimplemented!, failed assert or out-of-bounds access. NOT the whole-program statement of the property: "
          "one step per node kind, composition argued."),
    ref="DESIGN.md A.1 (C06)",
    note=("Trusted: Kani/CBMC/SAT; the recursive eval_expr calls are replaced by a stub that returns a prepared value (any double, 2 symbolic ASCII "
          "bytes, any bool, null, the empty array) and records the call order; the operator steps enter a copy of eval_expr regenerated from the "
          "current source on every run; check_stack (C08), number formatting, the text kernels behind string/array methods (C13) and process "
          "methods are cut; host values, non-empty arrays as operands, function calls, index assignment and interpolation are outside the claim."),
)

NOT_APPLICABLE = {
    "C03": "differential between two evaluator runs fed by the whole analysis pipeline on symbolic programs; neither half can be encoded (DESIGN.md 4)",
    "C05": "copy primitives (Value::clone_into / promote) re-read element tags from arena memory, so CBMC explores every variant at every level; flat two-element arrays did not finish; mutation paths need the evaluator (DESIGN.md 4)",
    "C08": "native stack depth is not part of CBMC's machine model (no stack pointer, frame sizes or guard page); check_stack compares addresses of unrelated model objects",
    "C14": "process-level observation (stdout/exit status) of a binary and sequences of whole-program runs through clap, file I/O and the evaluator; the encodable ingredient (scratch arena flip/flop and re-initialisation) is decided under C11",
}

PENDING = {}


def build():
    checks = []
    for pid in sorted(CLAIMED):
        c = CLAIMED[pid]
        checks.append({
            "property_id": pid,
            "quick_cmd": "./check %s quick" % pid,
            "thorough_cmd": "./check %s thorough" % pid,
            "evidence_file": "/verif/evidence/%s.json" % pid,
            "replay_cmd_template": "./check %s --replay {path}" % pid,
            "engine": "kani-cbmc",
            "level_claimed": {"category": "model_checking", "text": c["text"], "design_ref": c["ref"]},
            "level_note": c["note"],
            "technique": c.get("technique", TECH),
        })
    na = [{"property_id": k, "reason": v} for k, v in sorted({**NOT_APPLICABLE, **PENDING}.items())
          if k not in CLAIMED]
    return {
        "version": 1,
        "setup_cmd": "cargo kani --version && cbmc --version && python3 -m compileall -q vk",
        "hooks": {
            "guard": "cfg(kani)",
            "enable": ("no source change in /repo: every check copies /repo's working tree to a scratch directory and appends "
                       "`#[cfg(kani)] #[path=...] mod verif_<x>;` lines to the anchored files there; cfg(kani) is set only by cargo kani"),
            "baseline_off_cmd": "cd /repo && cargo nextest run --workspace --no-fail-fast --offline || cargo test --workspace --no-fail-fast --offline",
            "source_commits": [],
            "add_only": True,
        },
        "engines": [{
            "name": "kani-cbmc", "path": "/verif/vk",
            "serves_properties": sorted(CLAIMED),
            "kind_free_text": "Kani 0.68 proof harnesses injected into a scratch copy of /repo, decided by CBMC 6.11 + SAT; counterexamples replayed natively before being reported",
        }],
        "checks": checks,
        "not_applicable": na,
        "notes": ("Exit codes of ./check: 0 = every obligation discharged (known findings printed as KNOWN-FINDING lines); "
                  "1 = replayed, unlisted violation (VIOLATION line); 2 = inconclusive (build failure, solver out of resources, "
                  "unsatisfied reachability witness, counterexample that does not replay natively)."),
    }


if __name__ == "__main__":
    m = build()
    with open(os.path.join(VERIF, "MANIFEST.json"), "w") as f:
        json.dump(m, f, indent=1)
    print("claimed:", [c["property_id"] for c in m["checks"]])
    print("not_applicable:", [c["property_id"] for c in m["not_applicable"]])
