"""Regenerates /verif/MANIFEST.json from the table below:  python3 -m vk.manifest"""
import json
import os

from .stage import VERIF

TECH = "bounded model checking of the compiled Rust with Kani 0.68 / CBMC 6.11 (SAT: CaDiCaL, kissat cross-check)"

CLAIMED = {
    "C12": dict(
        text=("Bounded model checking over the compiled pool code: one inductive step of Pool::alloc / Pool::dealloc "
              "from an arbitrary state satisfying the representation invariant (so histories of any length are covered "
              "through the invariant), size_class for all 2^32 sizes, PoolSet dispatch/fallback/contains/alloc_str at "
              "every class boundary the property names. Bounded, not a proof: slot counts are concretised (4; 6/8 thorough; 1 per class for PoolSet)."),
        ref="DESIGN.md 3 (C12)",
        note=("Trusted: Kani/CBMC/CaDiCaL; virtual-memory stubs (reserve = fresh aligned model object of 256 B..4 KiB, commit succeeds); "
              "step proofs lay the Pool over harness-owned buffers (Pool::new itself is exercised from its initial state); "
              "slot counts 4/6/8 instead of 16384..512; both debug-assertion profiles modelled."),
    ),
}

CLAIMED["C11"] = dict(
    text=("Bounded model checking of the real bump-arena code: one inductive step of every operation (alloc_raw/alloc_raw_bump via "
          "allocate, allocate_zeroed, alloc_uninit_slice; grow, grow_zeroed, shrink, reset, decommit) from an arbitrary state satisfying "
          "the representation invariant, over all 64-bit sizes and offsets, with the OS commit call free to fail; scratch-arena "
          "flip/flop, nested borrow/drop and re-initialisation; both debug-assertion profiles (poison fills included). "
          "Bounded: capacity 4 chunks, alignments <= 4096 (2^13..2^16 in the known-finding instance), content checks in a 512-byte window."),
    ref="DESIGN.md 3 (C11)",
    note=("Trusted: Kani/CBMC/CaDiCaL; recording stubs for reserve/commit/decommit/release (commit may fail); the arena state is "
          "constructed directly from symbolic commit/offset; real mmap/mprotect behaviour, Windows/wasm back ends and std's Vec growth "
          "policy are outside the claim."),
)

NOT_APPLICABLE = {
    "C01": "tree-walk evaluator (Runtime::eval_expr/exec_stmt) cannot be symbolically executed by Kani/CBMC within this machine's memory (7 probe variants, DESIGN.md 4); every clause of the property is evaluator behaviour",
    "C03": "differential between two evaluator runs fed by the whole analysis pipeline on symbolic programs; neither half can be encoded (DESIGN.md 4)",
    "C05": "copy primitives (Value::clone_into / promote) re-read element tags from arena memory, so CBMC explores every variant at every level; flat two-element arrays did not finish; mutation paths need the evaluator (DESIGN.md 4)",
    "C06": "the panic/unreachable sites are arms of eval_expr / eval_member_call, which cannot be encoded (DESIGN.md 4)",
    "C08": "native stack depth is not part of CBMC's machine model (no stack pointer, frame sizes or guard page); check_stack compares addresses of unrelated model objects",
    "C14": "process-level observation (stdout/exit status) of a binary and sequences of whole-program runs through clap, file I/O and the evaluator; the encodable ingredient (scratch arena flip/flop and re-initialisation) is decided under C11",
}

PENDING = {pid: "check not built yet in this session (planned, see DESIGN.md 3); not claimed until it is"
           for pid in ["C02", "C04", "C07", "C09", "C10", "C13", "C15", "C16", "C17", "C18"]}


def build():
    checks = []
    for pid in sorted(CLAIMED):
        c = CLAIMED[pid]
        checks.append({
            "property_id": pid,
            "quick_cmd": "./check %s quick" % pid,
            "thorough_cmd": "./check %s thorough" % pid,
            "evidence_file": "/verif/evidence/%s.json" % pid,
            "replay_cmd_template": "./check %s --replay {path}" % pid,
            "engine": "kani-cbmc",
            "level_claimed": {"category": "model_checking", "text": c["text"], "design_ref": c["ref"]},
            "level_note": c["note"],
            "technique": c.get("technique", TECH),
        })
    na = [{"property_id": k, "reason": v} for k, v in sorted({**NOT_APPLICABLE, **PENDING}.items())
          if k not in CLAIMED]
    return {
        "version": 1,
        "setup_cmd": "cargo kani --version && cbmc --version && python3 -m compileall -q vk",
        "hooks": {
            "guard": "cfg(kani)",
            "enable": ("no source change in /repo: every check copies /repo's working tree to a scratch directory and appends "
                       "`#[cfg(kani)] #[path=...] mod verif_<x>;` lines to the anchored files there; cfg(kani) is set only by cargo kani"),
            "baseline_off_cmd": "cd /repo && cargo nextest run --workspace --no-fail-fast --offline || cargo test --workspace --no-fail-fast --offline",
            "source_commits": [],
            "add_only": True,
        },
        "engines": [{
            "name": "kani-cbmc", "path": "/verif/vk",
            "serves_properties": sorted(CLAIMED),
            "kind_free_text": "Kani 0.68 proof harnesses injected into a scratch copy of /repo, decided by CBMC 6.11 + SAT; counterexamples replayed natively before being reported",
        }],
        "checks": checks,
        "not_applicable": na,
        "notes": ("Exit codes of ./check: 0 = every obligation discharged (known findings printed as KNOWN-FINDING lines); "
                  "1 = replayed, unlisted violation (VIOLATION line); 2 = inconclusive (build failure, solver out of resources, "
                  "unsatisfied reachability witness, counterexample that does not replay natively)."),
    }


if __name__ == "__main__":
    m = build()
    with open(os.path.join(VERIF, "MANIFEST.json"), "w") as f:
        json.dump(m, f, indent=1)
    print("claimed:", [c["property_id"] for c in m["checks"]])
    print("not_applicable:", [c["property_id"] for c in m["not_applicable"]])
