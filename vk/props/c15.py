from ..registry import Harness as H, Obligation as O, Property
from .. import syntactic

F = "process.rs"
hs = []


def add(name, obl, inst, tier="quick", shape=None, **kw):
    hs.append(H(name, F, inst, obl, profile="R", tier=tier, shape=shape or {}, timeout=900, mem_gb=8, **kw))


for l in (0, 1, 2, 3):
    add("named_text_l%d" % l, "15.a", "named_text!(named_text_l%d, %d);" % (l, l), tier="quick" if l < 3 else "thorough",
        shape={"text_bytes": l, "cap": "all u32", "flags": "all four combinations"})

# (args, env, L, program_len, cwd, stdin kind)
SHAPES = [
    (0, 0, 1, 1, False, 0, "quick"), (0, 0, 1, 0, False, 0, "quick"), (0, 0, 1, 2, False, 1, "quick"),
    (1, 0, 0, 1, False, 0, "quick"), (1, 0, 1, 1, False, 0, "quick"), (2, 0, 1, 1, False, 0, "quick"),
    (2, 0, 2, 1, False, 0, "quick"), (0, 1, 1, 1, False, 0, "quick"), (0, 2, 1, 1, False, 0, "quick"),
    (0, 1, 0, 1, False, 0, "quick"), (0, 2, 2, 1, False, 0, "thorough"), (0, 0, 1, 1, True, 0, "quick"),
    (0, 0, 0, 1, True, 0, "quick"), (0, 0, 2, 1, False, 2, "quick"), (0, 0, 0, 1, False, 2, "quick"),
    (2, 2, 1, 1, True, 2, "quick"), (2, 2, 2, 2, True, 2, "thorough"), (1, 1, 1, 1, True, 1, "thorough"),
    (2, 1, 0, 1, False, 2, "thorough"),
]
for na, ne, l, pl, cwd, si, tier in SHAPES:
    nm = "validate_a%d_e%d_l%d_p%d_%s_s%d" % (na, ne, l, pl, "cwd" if cwd else "nocwd", si)
    add(nm, "15.b", "validate_exact!(%s, %d, %d, %d, %d, %s, %d);" % (nm, na, ne, l, pl, "true" if cwd else "false", si),
        tier=tier, shape={"args": na, "env_pairs": ne, "string_bytes": l, "program_bytes": pl, "cwd": cwd,
                          "stdin": ["inherit", "null", "text"][si], "caps": "all fourteen caps symbolic",
                          "timeout": "any Option<u32>", "output policies": "any"})
for n in (1, 2, 3):
    add("set_env_n%d" % n, "15.c", "set_env_last_wins!(set_env_n%d, %d);" % (n, n), tier="quick",
        shape={"writes": n, "keys": "{a,b}", "values": "any ASCII byte"})
for na, ne, l, si, tier in ((0, 0, 1, 0, "quick"), (2, 1, 1, 2, "quick"), (2, 1, 2, 2, "thorough"), (1, 0, 0, 1, "quick")):
    nm = "clone_a%d_e%d_l%d_s%d" % (na, ne, l, si)
    add(nm, "15.d", "clone_equal!(%s, %d, %d, %d, %d);" % (nm, na, ne, l, si), tier=tier,
        shape={"args": na, "env_pairs": ne, "string_bytes": l, "stdin": ["inherit", "null", "text"][si]})

PROP = Property(
    "C15",
    anchors={F: "src/process.rs"},
    obligations=[
        O("15.a", "validate_named_text is exact at every boundary", ["process::validate_named_text"],
          "text 0..2 bytes (3 thorough), all caps, all flags"),
        O("15.b", "validate accepts iff every documented limit holds; accepted spec is byte-identical to the configuration",
          ["process::ProcessCommand::validate", "process::validate_count", "process::validate_named_text"],
          "<= 2 args, <= 2 env pairs, strings <= 2 bytes, all fourteen caps symbolic"),
        O("15.c", "set_env: at most one pair per key, last write wins", ["process::ProcessCommand::set_env"], "<= 3 writes over keys {a,b}"),
        O("15.d", "clone_into copies field for field and owns its bytes", ["process::ProcessCommand::clone_into",
          "process::EnvPair::clone_into"], "<= 2 args, 1 env pair, strings <= 2 bytes"),
    ],
    harnesses=hs,
    pre_checks=[syntactic.process_gate_order],
    assumptions=[
        "strings are handed to the builder as ArenaString views over harness-owned buffers (ArenaString::from_raw_parts), concrete lengths, symbolic ASCII bytes",
        "that std::process::Command passes spec.args/env/cwd verbatim to the OS without a shell is std's contract and is assumed (run_host_process itself is not encodable: threads/processes)",
        "the runtime-side evaluation of builder arguments (eval_expr, to_string, frame/persistent arena placement) and the policy gate in Runtime::eval_process_command_call are outside this check: they sit in the evaluator (DESIGN.md 4); the order policy test -> validate -> run is checked syntactically on the current source and recorded as a note",
        "virtual memory stubbed (commit succeeds)",
    ],
    stubs=["UnixVirtualMemory::* -> model"],
    outside=["more than 2 args / env pairs", "strings longer than 3 bytes", "the OS spawn", "Windows back end"],
)
