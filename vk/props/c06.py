from ..registry import Harness as H, Obligation as O, Property

RE = "runtime_eval.rs"
hs = []
# a non-empty array operand (kind 5 in the harness) is not registered: dropping it inside the step pulls the
# recursive drop glue of Value over a symbolic element tag into the instance (out of memory at 8 GB / 334 s)
KINDS = ["number", "string", "bool", "null", "empty array"]
OPCLASS = ["and/or", "add", "minus/times", "divide/mod", "na/pass/small pass"]


def add(name, obl, inst, tier="quick", shape=None, **kw):
    kw.setdefault("timeout", 900)
    kw.setdefault("mem_gb", 3)
    kw.setdefault("replay", "c06_script")
    hs.append(H(name, RE, inst, obl, profile="R", tier=tier, shape=shape or {}, **kw))


for oc, ocn in enumerate(OPCLASS):
    for lk, lkn in enumerate(KINDS):
        for rk, rkn in enumerate(KINDS):
            nm = "binary_o%d_%d_%d" % (oc, lk, rk)
            add(nm, "6.a", "binary_step!(%s, %d, %d, %d);" % (nm, oc, lk, rk),
                tier="quick" if (lk == rk or lk == 0 or rk == 0 or (oc == 1 and 1 in (lk, rk))) else "thorough",
                input_class="binary:%s:%s,%s" % (ocn, lkn, rkn),
                shape={"operator": ocn, "left": lkn, "right": rkn, "contents": "any double / 2 symbolic ASCII bytes / any bool"})
for k, kn in enumerate(KINDS):
    nm = "unary_%d" % k
    add(nm, "6.b", "unary_step!(%s, %d);" % (nm, k), input_class="unary:%s" % kn,
        shape={"operator": "not | minus", "operand": kn})
for ak, akn in enumerate(KINDS):
    for ik, ikn in enumerate(KINDS):
        nm = "index_%d_%d" % (ak, ik)
        add(nm, "6.c", "index_step!(%s, %d, %d);" % (nm, ak, ik),
            tier="quick" if (ak == 4 or ik == 0) else "thorough",
            input_class="index:%s[%s]" % (akn, ikn), shape={"indexed value": akn, "index": ikn})

for k, kn in enumerate(KINDS[:5]):
    for lp in (False, True):
        nm = "cond_%d_%s" % (k, "loop" if lp else "if")
        add(nm, "6.d", "cond_step!(%s, %d, %s);" % (nm, k, "true" if lp else "false"), input_class="condition:%s" % kn,
            shape={"statement": "jasi" if lp else "if to say", "condition value": kn},
            contract_stubs=["exec_block_with_flow -> records the entry and ends the loop after one pass"])
# method -> (argument count, kind each argument must have (None: any), receiver kind) as documented
MFIELDS = ["len", "slice", "find", "replace", "split", "join", "abs", "push", "pop", "trim", "nosuch"]
MSIG = {"len": (0, None, (1, 4)), "slice": (2, 0, (1,)), "find": (1, 1, (1,)), "replace": (2, 1, (1,)), "split": (1, 1, (1,)),
        "join": (1, 1, (4,)), "abs": (0, None, (0,)), "push": (1, None, (4,)), "pop": (0, None, (4,)), "trim": (0, None, (1,)),
        "nosuch": (0, None, ())}
import itertools
for fid, fn in enumerate(MFIELDS):
    arity, want, recvs = MSIG[fn]
    for nargs in (0, 1, 2):
        for rk, rkn in enumerate(KINDS[:5]):
            for ks in itertools.product(range(5), repeat=nargs):
                if fn == "split" and nargs >= 1 and ks[0] == 1:
                    continue   # a string pattern runs the real splitter (C13's subject)
                k0, k1 = (list(ks) + [3, 3])[:2]
                nm = "member_%s_a%d_r%d%s" % (fn, nargs, rk, "".join("_%d" % k for k in ks))
                right_recv = rk in recvs
                wrong = [k for k in ks if want is not None and k != want]
                # quick: on the right receiver, every argument count with at most one off-kind argument (bool);
                # on two wrong receivers (bool, null) the call as documented
                quick = (right_recv and all(k in (want if want is not None else 0, 2) for k in ks) and len(wrong) <= 1) or \
                        (rk in (2, 3) and nargs == arity and not wrong and all(k == (want if want is not None else 0) for k in ks))
                if nargs == 2 and not quick and (arity != 2 or not all(k in (0, 1, 4) for k in ks)):
                    continue   # thorough: two-argument grid over number/string/array for the two-argument methods
                add(nm, "6.e", "member_step!(%s, %d, %d, %d, %d, %d);" % (nm, fid, nargs, rk, k0, k1),
                    tier="quick" if quick else "thorough", input_class="member:%s/%d on %s" % (fn, nargs, rkn),
                    shape={"method": fn, "arguments": nargs, "receiver": rkn, "argument kinds": [KINDS[k] for k in ks]},
                    contract_stubs=["text kernels (slice, find, replace, trim, to_uppercase, to_lowercase, to_number, len, join) -> arbitrary result of their type"])

add("index_target_flatten", "6.f", "index_target_step!(index_target_flatten);", input_class="index-target",
    shape={"statements": "f()[0] get v / f()[0].push(v)", "base of the index chain": "a call", "routine": "flatten_index_target (what both callers start with)"})
# 6.h (global built-ins: `command(x)`, `typeof(x)` through eval_builtin_call) is NOT registered: the argument vector lives in arena
# memory, its drop re-reads the element tags symbolically, and the instances ran out of memory at 12 GB (typeof: 104 s, command: OOM).
# The harness (builtin_step!) stays in the file; the `command(1)` crash repaired with d9eb9de was confirmed natively only.
add("bare_member", "6.g", "", input_class="bare-member", shape={"expression": "x.len (a member access that is not called)"})
add("callee_not_a_name", "6.g", "", input_class="callee", shape={"expression": "a[0]() (the callee is neither a name nor a method)"},
    contract_stubs=["eval_member_call / eval_builtin_call / exec_block_with_flow -> cut (not reached for this callee)"])

PROP = Property(
    "C06",
    anchors={RE: "src/runtime.rs", "pool.rs": "src/arena/pool.rs"},
    obligations=[
        O("6.a", "a binary operator applied to operands of any two runtime kinds ends with a value or a reported runtime error",
          ["runtime::Runtime::eval_expr"], "5 operator classes x 5 x 5 operand kinds, contents symbolic"),
        O("6.b", "a unary operator applied to an operand of any runtime kind ends with a value or a reported runtime error",
          ["runtime::Runtime::eval_expr"], "2 operators x 5 operand kinds"),
        O("6.c", "indexing any value with any value ends with an element or a reported runtime error, never outside the array",
          ["runtime::Runtime::eval_expr"], "5 x 5 kinds, the empty array, any double as index"),
        O("6.d", "an `if to say` / `jasi` condition of any runtime kind ends with the body entered, skipped, or a reported runtime error",
          ["runtime::Runtime::exec_stmt"], "2 statements x 5 kinds"),
        O("6.f", "an index chain whose base is not a variable (assignment target or receiver of a mutating method) is a reported error",
          ["runtime::Runtime::flatten_index_target"], "one index on a call result; the callers (assign_index, get_mutable_array) propagate the error with `?` (read, not decided)"),
        O("6.g", "expression shapes the parser builds and the static checker lets through (`x.len` without a call, `a[0]()`, `f()()`) are reported errors",
          ["runtime::Runtime::eval_expr", "runtime::Runtime::eval_function_call"], "one node each"),
        O("6.e", "a method call on a receiver of any runtime kind with any number and kinds of arguments ends with a value or a reported runtime error",
          ["runtime::Runtime::eval_member_call", "runtime::Runtime::eval_string_member_call", "runtime::Runtime::eval_array_member_call",
           "runtime::Runtime::eval_array_member_call_mut", "runtime::Runtime::eval_number_member_call"],
          "11 method names (<= 7 bytes) x 0..2 arguments x 5 receiver kinds x argument kinds (all 5 for one argument; number/string/array pairs for two)"),
    ],
    harnesses=hs,
    duplicates=[(RE, "src/runtime.rs", "eval_expr", "verif_outer_eval_expr", "impl<'a> Runtime<'a>")],
    assumptions=[
        "one evaluation step on one node: the recursive eval_expr calls are replaced by a stub that returns a prepared value of the instance's kind with symbolic content (any double incl. NaN/inf, 2 ASCII bytes, any bool) and records the call order",
        "the step is entered through a copy of eval_expr regenerated from the current source on every run",
        "Runtime::check_stack (the native stack guard, C08) replaced by Ok(()); core::fmt::write replaced by a no-op (number formatting is not the subject); ArenaString growth by the container model (capacity 32)",
        "which kinds can reach which position at run time is argued from the resolver's typing of parameters, array elements and pop()/to_number() results as dynamic (checked for the binary table by C09 9.a: a dynamic operand is admitted everywhere)",
    ],
    stubs=["Runtime::eval_expr (recursive calls) -> prepared-value stub", "Runtime::check_stack -> Ok", "core::fmt::write -> no-op",
           "ArenaString::with_capacity_in/push_str -> container model", "UnixVirtualMemory::* -> 256-byte model arenas",
           "PoolSet::new/contains -> static two-class pool"],
    outside=["global built-in calls (eval_builtin_call: the argument vector's drop did not fit)", "host values (process commands/results) as operands", "member calls, function calls, statements", "non-empty arrays as operands (the drop of the array inside the step did not fit: 8 GB / 334 s)",
             "strings longer than 2 bytes or non-ASCII", "the composition over whole programs"],
)
