from ..registry import Harness as H, Obligation as O, Property

T, R, S = "tw.rs", "replace.rs", "string.rs"
hs = []


def add(name, obl, inst, file, tier="quick", shape=None, **kw):
    # budget weight from measured resident sizes of the quick tier (<= 2 GB, replace over 4 bytes up to 4.9 GB); the caps stay
    if tier == "quick":
        kw.setdefault("weight_gb", 5 if name.startswith("replace_h4") or name.startswith("replace_wide_h4") else 3)
    hs.append(H(name, file, inst, obl, profile="R", tier=tier, shape=shape or {}, **kw))


# 13.a short paths: every branch of find (nlen 0, 1, 2, 3..16) against the definition, all byte values
for n in range(0, 4):
    for h in range(0, 7):
        quick = h in (0, 1, 3, 6) or n in (2, 3)
        nm = "find_h%d_n%d" % (h, n)
        add(nm, "13.a", "find_diff!(%s, %d, %d, false, %d);" % (nm, h, n, h + n + 3), T,
            tier="quick" if quick else "thorough",
            shape={"hay": h, "needle": n, "alphabet": "all 256 byte values", "unwind": h + n + 3},
            unwind_is_violation=True)
for h, n, tier in ((6, 4, "quick"), (8, 5, "thorough"), (17, 16, "quick"), (18, 16, "thorough")):
    nm = "find_h%d_n%d_ab" % (h, n)
    add(nm, "13.a", "find_diff!(%s, %d, %d, true, %d);" % (nm, h, n, h + 4 if h > n + 2 else n + 4), T, tier=tier,
        shape={"hay": h, "needle": n, "alphabet": "{a,b}"}, timeout=1200, unwind_is_violation=True)

# 13.b' long path, modular
add("crit_period_n17_ab", "13.b'", "crit_period_contract!(crit_period_n17_ab, 17, true, 40);", T,
    shape={"needle": 17, "alphabet": "{a,b}", "unwind": 40}, timeout=1200)
add("crit_period_n18_ab", "13.b'", "crit_period_contract!(crit_period_n18_ab, 18, true, 42);", T, tier="thorough",
    shape={"needle": 18, "alphabet": "{a,b}", "unwind": 42}, timeout=1800)
add("crit_period_n17_any", "13.b'", "crit_period_contract!(crit_period_n17_any, 17, false, 40);", T, tier="thorough",
    shape={"needle": 17, "alphabet": "all bytes", "unwind": 40}, timeout=1800, mem_gb=12)
for h in (17, 18, 19):
    nm = "find_modular_h%d_n17" % h
    add(nm, "13.b'", "find_modular!(%s, %d, 17, true, %d);" % (nm, h, h + 4), T,
        tier="thorough", timeout=1800, mem_gb=10,
        shape={"hay": h, "needle": 17, "alphabet": "{a,b}", "crit_period": "any (crit<n, 1<=period<=n)"},
        contract_stubs=["crit_period -> any (crit < n, 1 <= period <= n)"], unwind_is_violation=True,
        replay="c13_find")
for h in (18, 19):
    for crit in (0, 8, 16):
        nm = "find_crit%d_h%d_n17" % (crit, h)
        add(nm, "13.b'", "find_modular_crit!(%s, %s_stub, %d, 17, %d, %d);" % (nm, nm, h, crit, h + 4), T,
            tier="quick" if h == 18 else "thorough", timeout=900, mem_gb=8,
            shape={"hay": h, "needle": 17, "alphabet": "{a,b}", "crit_period": "crit=%d, any period" % crit},
            contract_stubs=["crit_period -> (crit=%d, any 1 <= period <= n)" % crit], unwind_is_violation=True,
            replay="c13_find")
# 13.b monolithic
for h, tier in ((17, "thorough"), (18, "thorough")):
    nm = "find_long_h%d_n17" % h
    add(nm, "13.b", "find_diff!(%s, %d, 17, true, 40);" % (nm, h), T, tier=tier, timeout=7200, mem_gb=12,
        shape={"hay": h, "needle": 17, "alphabet": "{a,b}", "unwind": 40}, unwind_is_violation=True,
        replay="c13_find")

# 13.c replace
for hh in range(0, 5):
    for ff in range(0, 3):
        for tt in range(0, 3):
            quick = (hh in (0, 2, 3, 4) and tt in (0, 1)) or (hh == 4 and ff == 2) or (ff == 0 and tt == 2)
            nm = "replace_h%d_f%d_t%d" % (hh, ff, tt)
            unw = (hh + (hh + 1) * tt if ff == 0 else max(hh, hh * tt)) + 3
            add(nm, "13.c", "replace_diff!(%s, %d, %d, %d, false, %d);" % (nm, hh, ff, tt, unw), R,
                tier="quick" if quick else "thorough", timeout=900,
                shape={"hay": hh, "from": ff, "to": tt, "alphabet": "ASCII (any 7-bit byte)"},
                replay="c13_replace", unwind_is_violation=True)
for hh, ff, tt, tier in ((4, 2, 1, "quick"), (4, 0, 2, "quick"), (4, 2, 2, "thorough"), (2, 2, 2, "quick")):
    nm = "replace_wide_h%d_f%d_t%d" % (hh, ff, tt)
    unw = (hh + (hh + 1) * tt if ff == 0 else max(hh, hh * tt)) + 3
    add(nm, "13.c", "replace_diff!(%s, %d, %d, %d, true, %d);" % (nm, hh, ff, tt, unw), R, tier=tier, timeout=900,
        shape={"hay": hh, "from": ff, "to": tt, "alphabet": "2-byte UTF-8 characters"},
        replay="c13_replace", unwind_is_violation=True)

# 13.d slice / len over all doubles, per character layout
LAYOUTS = [("e", [], 0), ("a", [1], 1), ("w", [2], 2), ("aa", [1, 1], 2), ("aw", [1, 2], 3), ("wa", [2, 1], 3),
           ("aaa", [1, 1, 1], 3), ("awa", [1, 2, 1], 4), ("ww", [2, 2], 4), ("waw", [2, 1, 2], 5)]
for nm0, w, b in LAYOUTS:
    nm = "slice_" + nm0
    quick = nm0 in ("e", "a", "aw", "wa", "aaa", "awa")
    add(nm, "13.d", "slice_spec!(%s, %d, %d, [%s], 12);" % (nm, len(w), b, ", ".join(str(x) for x in w)), S,
        tier="quick" if quick else "thorough", timeout=1200, mem_gb=8,
        shape={"chars": len(w), "bytes": b, "layout": w, "start": "all f64", "end": "all f64"})
# 13.e split / join
for ss, pp in ():   # ((2, 1), (3, 1), (3, 2)): the smallest instance ran into the 2400 s cap in the thorough tier; 13.e is not registered
    nm = "split_join_s%d_p%d" % (ss, pp)
    add(nm, "13.e", "split_join!(%s, %d, %d, 12);" % (nm, ss, pp), S, tier="thorough", timeout=2400, mem_gb=16,
        shape={"s": ss, "pattern": pp, "alphabet": "{a, ','}"})

PROP = Property(
    "C13",
    anchors={T: "src/builtins/tw.rs", R: "src/builtins/replace.rs", S: "src/builtins/string.rs"},
    obligations=[
        O("13.a", "find, short paths (needle 0,1,2,3..16) equals first occurrence; terminates; no panic",
          ["builtins::tw::find"], "hay <= 6 x needle <= 3 over all bytes; needle 4/16 over {a,b}"),
        O("13.b", "find, long path (needle > 16), monolithic", ["builtins::tw::find", "builtins::tw::crit_period",
          "builtins::tw::maximal_suffix"], "needle 17, hay 17..19 over {a,b}"),
        O("13.b'", "long path, modular: factorisation contract + find for every anchor/period",
          ["builtins::tw::find", "builtins::tw::crit_period", "builtins::tw::maximal_suffix"],
          "needle 17/18, hay 17..19 over {a,b}"),
        O("13.c", "replace equals left-to-right non-overlapping substitution; empty pattern inserts between characters; result valid UTF-8",
          ["builtins::replace::replace", "builtins::tw::find"], "hay <= 4, from <= 2, to <= 2 bytes"),
        O("13.d", "slice selects characters [start,end) with floor, negative-from-end and clamping for all doubles; len counts characters",
          ["builtins::string::StringBuiltin::slice", "builtins::string::StringBuiltin::len"], "<= 3 characters of 1-2 bytes, all f64 bounds"),
        O("13.e", "join(split(s, p), p) == s", ["builtins::string::StringBuiltin::split", "builtins::array::ArrayBuiltin::join"],
          "NOT REGISTERED: s = 2, p = 1 ran into the 2400 s cap (std str::split searcher); the obligation is listed for the record only"),
    ],
    harnesses=hs,
    assumptions=[
        "memchr-rs memchr replaced by a scalar loop with the crate's documented contract (first index >= offset, else len)",
        "strings are modelled as byte arrays of concrete length with symbolic contents (find only looks at bytes)",
        "to_number, trim, to_uppercase, to_lowercase delegate to std and are not re-verified",
    ],
    stubs=["memchr_rs::memchr::memchr -> scalar loop"],
    outside=["needles longer than 18 bytes", "non-{a,b} bytes in the long path", "haystacks longer than 19 bytes"],
)
