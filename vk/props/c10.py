from ..registry import Harness as H, Obligation as O, Property
from .. import syntactic

SC = "scanner.rs"
hs = []


def add(name, obl, inst, tier="quick", shape=None, **kw):
    kw.setdefault("mem_gb", 8)
    if tier == "quick":
        kw.setdefault("weight_gb", 4)   # measured resident size of the quick instances: <= 3.5 GB (the cap stays 8 GB)
    hs.append(H(name, SC, inst, obl, profile="R", tier=tier, shape=shape or {}, timeout=1200, **kw))


def sep_lit(s):
    return "[" + ", ".join("b'%s'" % ({"\n": "\\n", "\r": "\\r", "\t": "\\t", "'": "\\'"}.get(c, c)) for c in s) + "]"


SEPS = [("sp", " "), ("tab", "\t"), ("lf", "\n"), ("cr", "\r"), ("crlf", "\r\n"), ("cmt_lf", "#c\n"), ("cmt_cr", "#\r"),
        ("cmt_crlf", "#c\r\n"), ("cmt_empty_lf", "#\n"), ("sp_cmt", " #\n")]
for nm0, s in SEPS:
    for extra in (0, 1, 2, 3):
        n = len(s) + extra
        nm = "sep_%s_x%d" % (nm0, extra)
        quick = extra <= 1 or (extra == 2 and nm0 in ("sp", "crlf", "cmt_lf", "cmt_cr"))
        add(nm, "10.a", "separator_skip!(%s, %d, %d, %s, %d);" % (nm, n, len(s), sep_lit(s), n + 3),
            tier="quick" if quick else "thorough",
            shape={"separator": repr(s), "suffix_bytes": extra, "alphabet": "ASCII + 2-/3-byte UTF-8"},
            contract_stubs=["scan_number/scan_identifier_or_keyword/scan_string -> deterministic models (run to next whitespace)"],
            replay="c10_layout")
for which, rn in ((0, "number"), (1, "ident"), (2, "string")):
    for n in (1, 2, 3):
        if which == 2 and n == 3:
            continue   # scan_string over 3 bytes: out of memory at 14 GB (310 s) in the thorough tier, not registered
        nm = "shift_%s_n%d" % (rn, n)
        add(nm, "10.a'", "translation!(%s, %d, %d, %d, %d);" % (nm, n, n + 1, which, n + 4),
            tier="quick" if (n <= 2 and which != 2) or n == 1 else "thorough", mem_gb=14 if which == 2 else 8,
            shape={"routine": "scan_" + rn, "text_bytes": n, "prefix": "one arbitrary ASCII byte"},
            contract_stubs=["Lexer::next_token (re-entry in scan_number) -> deterministic EOF"], replay="c10_layout")
KW = [("if_to_say", "if", "to", "say", 10), ("if_not_so", "if", "not", "so", 11), ("small_pass", "small", "pass", "", 12)]
for nm0, w1, w2, w3, expect in KW:
    for l1, l2 in ((1, 1), (2, 1), (1, 2), (2, 2)):
        if not w3 and l2 != 1:
            continue
        for good, tail in ((True, 0), (True, 1), (False, 1)):
            n = len(w1) + l1 + len(w2) + ((l2 + len(w3)) if w3 else 0) + tail
            nm = "kw_%s_%d%d_%s%d" % (nm0, l1, l2, "ok" if good else "cont", tail)
            quick = (l1, l2) in ((1, 1), (2, 1), (2, 2)) or not w3
            add(nm, "10.b", 'multiword!(%s, %d, b"%s", b"%s", b"%s", %d, %d, %s, %d, %d);' % (
                nm, n, w1, w2, w3, l1, l2, "true" if good else "false", expect, n + 3),
                tier="quick" if quick else "thorough",
                shape={"keyword": "%s %s %s" % (w1, w2, w3), "sep1_bytes": l1, "sep2_bytes": l2 if w3 else 0,
                       "separators": "any of space/tab/LF/CR", "tail": ["end of text", "non-word byte", "word byte"][tail if good else 2]},
                replay="c10_layout")

PROP = Property(
    "C10",
    anchors={SC: "src/syntax/scanner.rs"},
    obligations=[
        O("10.a", "the dispatcher started before a separator (whitespace run, # comment ended by LF/CR/CRLF) returns the same token, span, cursor and diagnostics as started after it",
          ["syntax::scanner::Lexer::next_token", "syntax::scanner::Lexer::skip_whitespace", "syntax::scanner::Lexer::skip_comment"],
          "10 separator shapes x suffix 0..2 (3 thorough) symbolic bytes"),
        O("10.a'", "translation invariance of scan_number / scan_identifier_or_keyword / scan_string",
          ["syntax::scanner::Lexer::scan_number", "syntax::scanner::Lexer::scan_identifier_or_keyword", "syntax::scanner::Lexer::scan_string"],
          "texts of 1..2 (3 thorough) bytes shifted by one byte"),
        O("10.b", "multi-word keywords are recognised with any whitespace run between their words; a longer last word rolls back to the same cursor",
          ["syntax::scanner::Lexer::scan_identifier_or_keyword", "syntax::scanner::Lexer::try_consume_word"],
          "separator runs of 1..2 bytes from {space, tab, LF, CR}"),
    ],
    harnesses=hs,
    pre_checks=[syntactic.parser_reads_tokens_only],
    assumptions=[
        "10.a + 10.a' give, by induction over tokens, identical token streams for two layouts of the same token sequence; the induction itself is an argument, not a check",
        "the parser half of the property (statement boundaries from token kinds only, redundant parentheses) is established syntactically: the driver checks on the current source that parser.rs reads the lexer only through the token iterator (recorded as a note), it is not solver-checked",
        "in 10.a the three scanning routines are replaced by deterministic models: what they do after the separator does not depend on the separator (same text, same cursor)",
        "memchr2 scalar stub; emit_error replaced by a counting/span-checking contract stub; ArenaString container model",
    ],
    stubs=["memchr_rs::memchr2::memchr2 -> scalar loop", "Lexer::emit_error -> contract stub", "ArenaString container model"],
    outside=["comments between the words of a multi-word keyword", "parser behaviour", "texts longer than the shapes listed"],
)
