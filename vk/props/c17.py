from ..registry import Harness as H, Obligation as O, Property
from .. import syntactic

F = "unix_stdin.rs"
hs = []


def compositions(n):
    if n == 0:
        return [[]]
    out = []
    for first in range(1, n + 1):
        for rest in compositions(n - first):
            out.append([first] + rest)
    return out


def add(n, sched, calls, any_byte, tier):
    k = max(len(sched), 1)
    sc = sched + [0] * (k - len(sched))
    nm = "lines_n%d_%s_c%d%s" % (n, "_".join(str(x) for x in sched) or "empty", calls, "_any" if any_byte else "")
    hs.append(H(nm, F, "successive_lines!(%s, %d, %d, [%s], %d, %s, %d);" % (
        nm, n, k, ", ".join(str(x) for x in sc), calls, "true" if any_byte else "false", n + 3),
        "17.a" if calls == 2 else "17.b", profile="R", tier=tier, timeout=900, mem_gb=(8 if n <= 3 else 12) if calls == 2 else 14,
        weight_gb=(8 if (calls == 3 and n == 3) else 6 if (n == 3 or any_byte or calls == 3) else 5) if n <= 3 else None,   # measured resident sizes: 4.5-4.8 GB (N <= 3), 7.2 GB (three calls)
        shape={"input_bytes": n, "chunk_schedule": sched, "calls": calls,
               "alphabet": "any text over ASCII + 2-byte UTF-8 characters" if any_byte else "{\\n, x, y}"},
        replay="playback"))


# Quick tier: 9 instances that fit the memory budget in ONE wave (about 6 min): every schedule of N <= 3 except N = 1, one
# multi-byte instance, one three-call instance.  (The harness asked for "every change" was stopped at 900 s when the tier
# needed three waves.)  N = 4, the other multi-byte and three-call instances and N = 1 are thorough.
add(0, [], 2, False, "quick")
for n in (1, 2, 3, 4):
    for sched in compositions(n):
        add(n, sched, 2, False, "quick" if n in (2, 3) else "thorough")
add(2, [1, 1], 3, False, "quick")   # the three-call instance of the quick tier (N = 3 takes 5-6.5 min and 7.2 GB: thorough)
for sched in ([3], [1, 2], [2, 1]):
    add(3, sched, 3, False, "thorough")
for sched in ([4], [2, 2], [1, 2, 1]):
    add(4, sched, 3, False, "thorough")
# N = 5 with three calls ran out of memory (14 GB) for every schedule tried and is not registered
for sched in ([2], [1, 1]):
    add(2, sched, 2, True, "quick" if sched == [1, 1] else "thorough")
for sched in ([3], [1, 2], [2, 1]):
    add(3, sched, 2, True, "thorough")

PROP = Property(
    "C17",
    anchors={F: "src/sys/unix.rs"},
    obligations=[
        O("17.a", "two successive read_line calls return the first two lines, whatever the chunking",
          ["sys::unix::read_line_from"], "input <= 3 bytes (thorough 4) over {\\n,x,y}, every chunk schedule"),
        O("17.b", "three calls: partial last line, then empty strings at end of input",
          ["sys::unix::read_line_from"], "input 3 bytes (thorough 4)"),
    ],
    harnesses=hs,
    pre_checks=[syntactic.read_line_is_thin_wrapper],
    assumptions=[
        "the harness drives the line-assembly kernel sys::unix::read_line_from over a BufRead model: fill_buf returns the unread part of the chunk currently buffered and performs the next read when it is empty; consume(n) advances; UnixStdin::read_line passes io::stdin().lock(), whose BufReader is trusted to implement that contract",
        "memchr-rs memchr replaced by a scalar loop with the documented contract; virtual memory stubbed (commit succeeds)",
        "lines longer than the 8 KiB initial buffer (Vec growth), invalid UTF-8 and EINTR are outside the bound; the prompt is not the subject",
    ],
    stubs=["memchr_rs::memchr::memchr -> scalar loop", "UnixVirtualMemory::* -> model"],
    outside=["inputs longer than 5 bytes", "lines longer than 8 KiB", "the real std BufReader<StdinRaw> and read(2)"],
)
