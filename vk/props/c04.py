from ..registry import Harness as H, Obligation as O, Property

R = "resolver.rs"
hs = []


def add(name, obl, inst, tier="quick", shape=None, file=R, **kw):
    kw.setdefault("timeout", 900)
    kw.setdefault("mem_gb", 8)
    kw.setdefault("replay", "c04_script")
    hs.append(H(name, file, inst, obl, profile="R", tier=tier, shape=shape or {}, **kw))


SHAPES = [("0", [0]), ("1", [1]), ("2", [2]), ("11", [1, 1]), ("21", [2, 1]), ("12", [1, 2]), ("22", [2, 2]),
          ("101", [1, 0, 1]), ("211", [2, 1, 1]), ("122", [1, 2, 2]), ("222", [2, 2, 2])]
for nm0, shape in SHAPES:
    lit = "[%s]" % ", ".join(str(x) for x in shape)
    quick = nm0 in ("0", "2", "21", "12", "101", "211")
    for q, qn in ((0, "a"), (2, "c"), (1, "b")):
        add("lookup_var_%s_%s" % (nm0, qn), "4.a", "lookup_var_nearest!(lookup_var_%s_%s, %d, %s, %d);" % (nm0, qn, len(shape), lit, q),
            tier="quick" if quick and q != 1 else "thorough",
            shape={"scopes (entries per scope, outermost first)": shape, "names": "{a,b} symbolic per slot", "ids": "slot numbers", "query": qn})
for nm0, shape in (("1", [1]), ("2", [2]), ("11", [1, 1]), ("21", [2, 1]), ("12", [1, 2]), ("211", [2, 1, 1])):
    lit = "[%s]" % ", ".join(str(x) for x in shape)
    for q, qn in ((0, "f"), (2, "h")):
        add("lookup_func_%s_%s" % (nm0, qn), "4.e", "lookup_func_nearest!(lookup_func_%s_%s, %d, %s, %d);" % (nm0, qn, len(shape), lit, q),
            tier="quick" if nm0 in ("2", "21", "12") else "thorough",
            shape={"function scopes": shape, "names": "{f,g} symbolic (unique per block)", "ids/arity": "symbolic", "query": qn})

RL, PL = "runtime_lookup.rs", "pool.rs"
for nm0, shape in (("1", [1]), ("2", [2]), ("11", [1, 1]), ("21", [2, 1]), ("12", [1, 2]), ("22", [2, 2]), ("211", [2, 1, 1]), ("222", [2, 2, 2])):
    lit = "[%s]" % ", ".join(str(x) for x in shape)
    for w, wn in ((0, "read"), (1, "mut")):   # the by-name variants (symbolic string pointers) ran out of memory
        quick = nm0 in ("2", "21", "12", "211")
        add("env_%s_%s" % (wn, nm0), "4.g", "env_lookup!(env_%s_%s, %d, %s, %d);" % (wn, nm0, len(shape), lit, w), file=RL,
            tier="quick" if quick else "thorough", timeout=900, mem_gb=8, replay="playback",
            shape={"environment (slots per scope, outermost first)": shape, "ids": "symbolic over {none,0,1}", "names": "symbolic over {a,b}",
                   "lookup": wn})

PROP = Property(
    "C04",
    anchors={R: "src/resolver.rs", RL: "src/runtime.rs", PL: "src/arena/pool.rs"},
    obligations=[
        O("4.a", "a variable name resolves to the nearest enclosing declaration (innermost scope, most recent entry), or to nothing",
          ["resolver::Resolver::lookup_var_info"], "scope stacks <= 3 scopes x 2 entries over {a,b}"),
        O("4.e", "a function name resolves to the innermost enclosing definition; not visible when no open block defines it",
          ["resolver::Resolver::lookup_func"], "function scope stacks <= 3 x 2 over {f,g}"),
        O("4.g", "the evaluator's id-directed environment lookups (read and in-place mutation) return the innermost live slot, never a same-named or same-id slot further out",
          ["runtime::Runtime::lookup_local_env", "runtime::Runtime::lookup_local_mut"],
          "environments <= 3 scopes x 2 slots, ids over {none,0,1}, names over {a,b}"),
    ],
    harnesses=hs,
    # resolver.rs is shared with C09, whose 9.c harness enters this generated copy of check_expr
    duplicates=[(R, "src/resolver.rs", "check_expr", "verif_outer_check_expr", "impl<'ast, 'res> Resolver<'ast, 'res>")],
    assumptions=[
        "routine-level contracts on the resolver's symbol tables for every table content within the shape; that block entry/exit pushes and pops exactly one scope per lexical block (so that the table content IS the lexical context) is an argument here, not a check: the routines that maintain the tables index arena vectors with indices read back from arena memory, which does not fit in a SAT instance on this machine (DESIGN.md 4)",
    ],
    stubs=["UnixVirtualMemory::* -> model"],
    outside=["scope-stack maintenance (check_block / check_function_body with parameters)", "runtime environment lookups", "pointer-keyed fact tables"],
)
