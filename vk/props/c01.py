from ..registry import Harness as H, Obligation as O, Property

RE = "runtime_eval.rs"
hs = []


def add(name, obl, inst, tier="quick", shape=None, **kw):
    kw.setdefault("timeout", 900)
    kw.setdefault("mem_gb", 4)
    kw.setdefault("replay", "c01_script")
    hs.append(H(name, RE, inst, obl, profile="R", tier=tier, shape=shape or {}, **kw))


OPS = ["add", "minus", "times", "divide", "mod", "na", "pass", "small pass"]
for i, o in enumerate(OPS):
    nm = "sem_number_%s" % o.replace(" ", "_")
    add(nm, "1.a", "sem_number!(%s, %d, false);" % (nm, i), input_class="number %s number" % o, mem_gb=8,
        shape={"operator": o, "operands": "any two doubles (NaN, infinities, signed zeros, subnormals included)",
               "exact result": "not compared for divide and mod (see the _small instance)" if o in ("divide", "mod") else "compared bit for bit"})
add("sem_number_divide_small", "1.a", "sem_number!(sem_number_divide_small, 3, true);", input_class="number divide number", mem_gb=8,
    timeout=1500, shape={"operator": "divide", "operands": "whole numbers -128..127", "exact result": "compared bit for bit"})
for is_and in (True, False):
    for ln in (False, True):
        for rn in (False, True):
            nm = "sem_%s_%s_%s" % ("and" if is_and else "or", "null" if ln else "bool", "null" if rn else "bool")
            add(nm, "1.b", "sem_logic!(%s, %s, %s, %s);" % (nm, str(is_and).lower(), str(ln).lower(), str(rn).lower()),
                input_class="%s" % ("and" if is_and else "or"),
                shape={"operator": "and" if is_and else "or", "left": "null" if ln else "any bool", "right": "null" if rn else "any bool"})
for i, sh in enumerate(["bool/bool", "null/null", "null/other", "other/null"]):
    for ok, okn in enumerate(["number", "string", "bool"]):
        if i < 2 and ok > 0:
            continue
        nm = "sem_compare_%d%s" % (i, "_%d" % ok if i >= 2 else "")
        add(nm, "1.c", "sem_compare!(%s, %d, %d);" % (nm, i, ok), input_class="compare %s" % sh,
            shape={"operands": sh if i < 2 else sh.replace("other", okn), "operator": "na | pass | small pass"})
for i, o in enumerate(["add", "na", "pass", "small pass"]):
    nm = "sem_string_%s" % o.replace(" ", "_")
    add(nm, "1.d", "sem_string!(%s, %d);" % (nm, i), input_class="string %s string" % o, mem_gb=8,
        shape={"operator": o, "operands": "two strings of 2 symbolic ASCII bytes"})
for i, sh in enumerate(["not bool", "not null", "minus number"]):
    nm = "sem_unary_%d" % i
    add(nm, "1.e", "sem_unary!(%s, %d);" % (nm, i), input_class=sh, shape={"step": sh})
for ik, kn in enumerate(["number", "string", "bool", "null", "empty array"]):
    nm = "sem_index_empty_%d" % ik
    add(nm, "1.f", "sem_index_empty!(%s, %d);" % (nm, ik), input_class="[][%s]" % kn, mem_gb=8,
        shape={"array": "empty", "index": "any double" if ik == 0 else kn})
for he in (False, True):
    for cn in (False, True):
        nm = "sem_if_%s_%s" % ("else" if he else "noelse", "null" if cn else "bool")
        add(nm, "1.g", "sem_if!(%s, %s, %s);" % (nm, str(he).lower(), str(cn).lower()), input_class="if",
            shape={"else": he, "condition": "null" if cn else "any bool", "branch ends with": "end | comot | next | return"},
            contract_stubs=["exec_block_with_flow -> records the block and ends it in the prepared way"])
FLOWS = ["end", "comot", "next", "return"]
for f0 in range(4):
    for f1 in range(4):
        if f0 in (1, 3) and f1 != 0:
            continue   # the second pass never happens
        if f0 in (0, 2) and f1 in (0, 2):
            continue   # two passes that both go on need a third test of the condition: these four instances timed out (900 s);
                       # "a pass that ends normally or with next is followed by a new test" is decided at the first pass by the others
        nm = "sem_loop_%s_%s" % (FLOWS[f0], FLOWS[f1])
        add(nm, "1.h", "sem_loop!(%s, %d, %d);" % (nm, f0, f1), input_class="jasi", mem_gb=8,
            shape={"condition values": "any two bools, then null", "first pass ends with": FLOWS[f0], "second pass ends with": FLOWS[f1]},
            contract_stubs=["exec_block_with_flow -> records the pass and ends it in the prepared way"])

PROP = Property(
    "C01",
    anchors={RE: "src/runtime.rs", "pool.rs": "src/arena/pool.rs"},
    obligations=[
        O("1.a", "number op number is the IEEE double operation; divide/mod by zero is `Division by zero`; pass/small pass are >/<; equal numbers are `na`",
          ["runtime::Runtime::eval_expr"], "8 operators, all pairs of doubles"),
        O("1.b", "and/or: left to right, short circuit, null is falsy", ["runtime::Runtime::eval_expr"], "2 operators x {bool,null}^2"),
        O("1.c", "comparison tables for booleans and null", ["runtime::Runtime::eval_expr"], "4 operand shapes x 3 operators"),
        O("1.d", "string add string concatenates; na/pass/small pass compare by bytes", ["runtime::Runtime::eval_expr"], "strings of 2 ASCII bytes"),
        O("1.e", "not / unary minus", ["runtime::Runtime::eval_expr"], "3 shapes"),
        O("1.f", "indexing the empty array: whole index -> `Index out of bounds`, anything else -> `Invalid index`", ["runtime::Runtime::eval_expr"],
          "any double, 4 other kinds"),
        O("1.g", "if/else runs exactly the chosen block and passes its way of ending on", ["runtime::Runtime::exec_stmt"], "with/without else, bool/null"),
        O("1.h", "jasi: test before every pass; comot ends the loop, next and a normal end go on, return leaves with its value",
          ["runtime::Runtime::exec_stmt"], "up to two passes"),
    ],
    harnesses=hs,
    duplicates=[(RE, "src/runtime.rs", "eval_expr", "verif_outer_eval_expr", "impl<'a> Runtime<'a>")],
    assumptions=[
        "one evaluation step on one node: the values of the sub-expressions are prepared (symbolic content) and handed out by a stub that replaces the recursive eval_expr calls and records their order; nested blocks are replaced by a stub that records the block and ends it in a prepared way",
        "the operator steps enter a copy of eval_expr regenerated from the current source on every run",
        "the oracle is written from the language documentation (docs/*.md): IEEE double arithmetic, short circuit, null falsy, comparison tables, error kinds; `na` on numbers is only required to hold for equal doubles and to fail for doubles more than 0.001 apart (the implementation's tolerance is not documented)",
        "mod is only required to yield a number (CBMC has no exact model of fmod); number formatting (string add number) is cut",
        "Runtime::check_stack replaced by Ok(()); ArenaString growth by the container model",
    ],
    stubs=["Runtime::eval_expr (recursive calls) -> prepared-value stub", "Runtime::exec_block_with_flow -> prepared-flow stub",
           "Runtime::check_stack -> Ok", "core::fmt::write -> no-op", "ArenaString::with_capacity_in/push_str -> container model",
           "UnixVirtualMemory::* -> 256-byte model arenas", "PoolSet::new/contains -> static two-class pool"],
    outside=["the parser (precedence), function calls and return-value transport, variables and scopes, interpolation, arrays with elements, built-in functions and methods (text kernels: C13)",
             "string add number (formatting)", "composition of the steps over whole programs"],
)
