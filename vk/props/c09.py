from ..registry import Harness as H, Obligation as O, Property

R = "resolver.rs"
hs = []


def add(name, obl, inst, tier="quick", shape=None, **kw):
    kw.setdefault("timeout", 900)
    kw.setdefault("mem_gb", 8)
    kw.setdefault("replay", "c09_script")
    hs.append(H(name, R, inst, obl, profile="R", tier=tier, shape=shape or {}, **kw))


TYPES = "all 9 x 9 static type combinations (8 types + unknown)"
for cls, nm in ((0, "add"), (1, "arith"), (2, "compare"), (3, "logic")):
    add("binary_%s" % nm, "9.a", "binary_rule!(binary_%s, %d);" % (nm, cls),
        shape={"operator class": nm, "operand types": TYPES},
        contract_stubs=["infer_expr_type -> any static type per operand", "emit_error -> counting stub"])
for w, nm in ((0, "not"), (1, "neg"), (2, "index"), (4, "condition")):
    add("rule_%s" % nm, "9.b", "unary_index_cond_rule!(rule_%s, %d);" % (nm, w),
        shape={"construct": nm, "operand types": TYPES},
        contract_stubs=["infer_expr_type -> any static type per operand", "emit_error -> counting stub"])
add("comot_context", "9.d", "break_continue_rule!(comot_context, true);", shape={"loop depth": "0..3", "function context": "any"})
add("next_context", "9.d", "break_continue_rule!(next_context, false);", shape={"loop depth": "0..3", "function context": "any"})
add("loop_context", "9.e", "", shape={"loop depth": "0..3", "function context": "any"},
    contract_stubs=["check_block -> records in_loop/current_function", "infer_expr_type, classify_expr"])
for n in (0,):
    add("function_body_p%d" % n, "9.f", "function_body_context!(function_body_p%d, %d);" % (n, n),
        shape={"parameters": n, "loop depth at the definition": "0..3", "enclosing function": "any"},
        contract_stubs=["check_block -> records in_loop/current_function/scope stack"])
add("return_context", "9.g", "", shape={"loop depth": "0..3", "function context": "any", "expression": "with / without"},
    contract_stubs=["check_expr -> counting stub"])

SHAPES = [("0", [0]), ("1", [1]), ("2", [2]), ("11", [1, 1]), ("21", [2, 1]), ("12", [1, 2]), ("101", [1, 0, 1]), ("211", [2, 1, 1])]
for nm0, shape in SHAPES:
    lit = "[%s]" % ", ".join(str(x) for x in shape)
    quick = nm0 in ("0", "1", "21", "101")
    for w, wn in ((0, "use"), (1, "assign"), (2, "placeholder")):
        if not quick and w != 0:
            continue
        if w == 1 and nm0 in ("21", "101"):
            continue   # assignment over 3-entry stacks: out of memory at 12 GB in the thorough tier (four instances), not registered
        for q, qn in ((0, "a"), (2, "c")):
            if w == 2 and nm0 == "101" and q == 2:
                continue   # out of memory at 12 GB
            add("undeclared_%s_%s_%s" % (wn, nm0, qn), "9.h", "undeclared_rule!(undeclared_%s_%s_%s, %d, %s, %d, %d);" % (wn, nm0, qn, len(shape), lit, w, q),
                tier="quick" if quick and (w == 0 or nm0 in ("0", "1")) and (q == 0 or nm0 == "21") else "thorough",
                mem_gb=8 if w != 1 else 12,
                shape={"scopes": shape, "names": "{a,b} symbolic per slot", "query": qn, "construct": wn})
for nm0, shape in (("1", [1]), ("21", [2, 1])):
    lit = "[%s]" % ", ".join(str(x) for x in shape)
    for nargs in (1, 2):   # the zero-argument instances ran into the 1800 s cap in the thorough tier (like call_builtin_a0)
        add("call_undeclared_%s_a%d" % (nm0, nargs), "9.i", "call_rule!(call_undeclared_%s_a%d, %d, %s, %d, false, 2);" % (nm0, nargs, len(shape), lit, nargs),
            tier="quick" if nargs == 1 else "thorough", shape={"function scopes": shape, "arguments": nargs, "callee": "h (not defined by any open block)"})
for nargs in (1, 2):   # the zero-argument instance did not finish in 900 s (solver), the rejecting case is covered by a2
    add("call_builtin_a%d" % nargs, "9.i", "call_rule!(call_builtin_a%d, 1, [0], %d, true, 0);" % (nargs, nargs),
        shape={"builtin": "shout (arity 1)", "arguments": nargs})

FIELDS = [(0, "len"), (1, "find"), (2, "replace"), (3, "slice"), (4, "split"), (5, "join"), (6, "push"), (7, "abs"),
          (8, "success"), (9, "run"), (10, "nosuch"), (11, "trim"), (12, "pop")]
for fid, fname in FIELDS:
    for nargs in (0, 1, 2):
        quick = (fname in ("find", "replace", "slice", "split", "join", "len", "nosuch") and nargs in (1, 2)) or (fname in ("len", "abs", "run", "push") and nargs == 0)
        add("member_%s_a%d" % (fname, nargs), "9.c", "member_call_rule!(member_%s_a%d, %d, %d);" % (fname, nargs, fid, nargs),
            tier="quick" if quick else "thorough", input_class="method:" + fname,
            shape={"method": fname, "arguments": nargs, "receiver type": "all 9 static types", "argument type": "all 9 static types"},
            contract_stubs=["infer_expr_type -> any static type for the receiver and for the arguments"])

PROP = Property(
    "C09",
    anchors={R: "src/resolver.rs"},
    obligations=[
        O("9.a", "binary operator type table, all static type combinations", ["resolver::Resolver::check_expr"], "one Binary node"),
        O("9.b", "not / unary minus / index / condition type rules", ["resolver::Resolver::check_expr", "resolver::Resolver::check_boolean_expr"], "one node"),
        O("9.c", "member calls: unknown method, argument count and typed arguments per receiver type",
          ["resolver::Resolver::check_expr", "resolver::Resolver::expect_member_string_arg", "resolver::Resolver::expect_member_number_arg"],
          "13 method names x 0..2 arguments x 9 receiver types x 9 argument types"),
        O("9.d", "comot/next rejected iff outside a loop", ["resolver::Resolver::check_stmt"], "loop depth 0..3"),
        O("9.e", "loop body entered one level deeper, restored afterwards", ["resolver::Resolver::check_stmt"], "loop depth 0..3"),
        O("9.f", "function body entered with current_function = Some(f) and loop depth 0; parameters form one new scope; all restored",
          ["resolver::Resolver::check_function_body"], "0..2 parameters"),
        O("9.g", "return rejected iff outside a function", ["resolver::Resolver::check_return_stmt"], "any context"),
        O("9.h", "use of, assignment to, and {placeholder} of a variable that is not in scope are rejected with the right category",
          ["resolver::Resolver::check_expr", "resolver::Resolver::check_stmt", "resolver::Resolver::lookup_var_info"], "scope stacks <= 3 x 2 over {a,b}"),
        O("9.i", "call of a function that is not in scope is rejected as undeclared; builtin calls are rejected iff the argument count is wrong",
          ["resolver::Resolver::check_expr", "resolver::Resolver::lookup_func"], "function scope stacks <= 2 x 2, 0..2 arguments"),
    ],
    harnesses=hs,
    duplicates=[(R, "src/resolver.rs", "check_expr", "verif_outer_check_expr", "impl<'ast, 'res> Resolver<'ast, 'res>")],
    assumptions=[
        "each rule is decided on ONE real routine and ONE node; nesting is represented by the symbolic context state (in_loop, current_function, scope stacks), recursive calls by contract stubs; that the contracts compose over whole programs is an argument, not a check",
        "infer_expr_type is stubbed to return ANY static type for an operand (over-approximates what sub-expressions can have); its agreement with the real types of sub-expressions is outside the claim",
        "the oracle for the operator table is the documented/evaluated semantics: `add` on number/string/dynamic, arithmetic on number/dynamic, comparisons on equal scalar types or null/dynamic, and/or and conditions on bool/null/dynamic",
        "rules enforced by the parser (reserved keywords as names, assignment targets) are not executed",
    ],
    stubs=["Resolver::emit_error -> counting stub", "core::fmt::write -> no-op", "UnixVirtualMemory::* -> model"],
    outside=["deep trees", "parser-enforced rules", "type inference of sub-expressions"],
)
