from ..registry import Harness as H, Obligation as O, Property

F = "pool.rs"
hs = []


def step(name, fn, n, ssz, unw, profile, tier="quick", res="reserve_256", **kw):
    hs.append(H(name, F, "pool_step!(%s, %s, %d, %d, %d, %s);" % (name, fn, n, ssz, unw, res),
                "12.a" if fn == "alloc_step" else ("12.b" if fn == "dealloc_step" else "12.s"),
                profile=profile, tier=tier,
                shape={"slots": n, "slot_size": ssz, "unwind": unw, "state": "arbitrary valid (I12)"},
                **kw))


# one inductive step from an arbitrary valid pool state
for prof in ("A", "R"):
    step("pool_alloc_step_n4_%s" % prof, "alloc_step", 4, 8, 10, prof)
    step("pool_dealloc_step_n4_%s" % prof, "dealloc_step", 4, 8, 10, prof)
    step("pool_new_smoke_n4_%s" % prof, "new_smoke", 4, 8, 10, prof)
step("pool_alloc_step_n4_s16_A", "alloc_step", 4, 16, 18, "A", timeout=900)
step("pool_alloc_step_n8_R", "alloc_step", 8, 8, 10, "R", tier="thorough", timeout=1800, mem_gb=16)
step("pool_dealloc_step_n8_R", "dealloc_step", 8, 8, 10, "R", tier="thorough", timeout=1800, mem_gb=16)
step("pool_alloc_step_n6_A", "alloc_step", 6, 8, 10, "A", tier="thorough", timeout=1800, mem_gb=16)
step("pool_dealloc_step_n6_A", "dealloc_step", 6, 8, 10, "A", tier="thorough", timeout=1800, mem_gb=16)

hs.append(H("size_class_total", F, "", "12.c", profile="R",
            shape={"n": "all 2^32 request sizes"}))
hs.append(H("size_tables", F, "", "12.c", profile="R", shape={"classes": 20}))

# class-boundary request sizes named by the property
BOUNDARY = [(0, 0), (1, 0), (8, 0), (9, 1), (128, 15), (129, 16), (160, 16), (161, 17),
            (256, 19), (257, None), (300, None)]
for size, cls in BOUNDARY:
    quick = size in (0, 8, 9, 128, 129, 160, 161, 256, 257)
    hs.append(H("poolset_dispatch_%d" % size, F,
                "poolset_dispatch!(poolset_dispatch_%d, %d, %s);" % (
                    size, size, "Some(%d)" % cls if cls is not None else "None"),
                "12.d", profile="R", tier="quick" if quick else "thorough", timeout=900,
                shape={"request": size, "slots_per_class": 1, "classes": 20}))
hs.append(H("poolset_contains_any_addr", F, "", "12.d", profile="R", timeout=900,
            shape={"address": "any of the 4096 offsets of the model arena", "slots_per_class": 1}))
for ln, tier in ((0, "quick"), (3, "quick"), (9, "thorough")):
    hs.append(H("alloc_str_copy_%d" % ln, F, "alloc_str_copy!(alloc_str_copy_%d, %d);" % (ln, ln),
                "12.d", profile="R", tier=tier, timeout=900,
                shape={"len": ln, "bytes": "symbolic ASCII"}))

PROP = Property(
    "C12",
    anchors={F: "src/arena/pool.rs"},
    obligations=[
        O("12.a", "Pool::alloc: one step from an arbitrary valid state", ["arena::pool::Pool::alloc"],
          "4 slots (thorough 6/8), slot size 8/16"),
        O("12.b", "Pool::dealloc (+ next alloc): one step from an arbitrary valid state",
          ["arena::pool::Pool::dealloc", "arena::pool::Pool::alloc"], "4 slots (thorough 6/8)"),
        O("12.s", "I12 holds initially; two fresh slots are disjoint", ["arena::pool::Pool::new"], "4 slots"),
        O("12.c", "size_class is total and returns the smallest fitting class; tables well-formed",
          ["arena::pool::size_class"], "all u32"),
        O("12.d", "PoolSet dispatch, fallback, class-checked release, contains, alloc_str",
          ["arena::pool::PoolSet::alloc", "arena::pool::PoolSet::dealloc",
           "arena::pool::PoolSet::contains", "arena::pool::PoolSet::alloc_str"],
          "1 slot per class (PoolSet::verif_small); request sizes at the class boundaries"),
    ],
    harnesses=hs,
    assumptions=[
        "virtual-memory back end replaced by stubs: reserve returns a fresh 4096-aligned model object (1 KiB / 4 KiB), commit always succeeds, decommit/release are no-ops",
        "slot counts concretised: 4 (6/8 thorough) for the step proofs, 1 per class for PoolSet (PoolSet::verif_small); the code reads slot_count only in comparisons",
        "one-step induction: the pre-state is any state satisfying I12 (bump<=N, free entries distinct and < bump, live == bump - free.len, debug: free slots poisoned); I12 is asserted again after the step and from Pool::new",
        "alloc_str on strings >= 4 GiB (len as u32 truncation) is outside the bound",
    ],
    stubs=["UnixVirtualMemory::reserve -> reserve_1k/reserve_4k", "UnixVirtualMemory::commit -> commit_ok",
           "UnixVirtualMemory::decommit/release -> no-op", "PoolSet::new -> PoolSet::verif_small (harness constructs it directly)"],
    outside=["production slot counts (16384..512)", "histories longer than one step are covered only through the inductive invariant",
             "interleavings across classes beyond one request size per instance"],
)
