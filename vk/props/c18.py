from ..registry import Harness as H, Obligation as O, Property

L, RL = "limits.rs", "resolver_limits.rs"
hs = []
for k, tier in ((0, "quick"), (1, "quick"), (2, "quick")):
    nm = "limit_exact_k%d" % k
    hs.append(H(nm, L, "limit_exact!(%s, %d);" % (nm, k), "18.a", profile="R", tier=tier, timeout=1200, mem_gb=8,
                shape={"functions_with_cfg_counts": k, "table_lengths": "all u32", "counts": "all u32",
                       "caps": "all eleven caps symbolic (u32/u64)"}))
hs.append(H("default_caps_positive", L, "", "18.b", profile="R", shape={"caps": "DEFAULT_CAPS"}))
hs.append(H("over_limit_skip_path", RL, "", "18.c", profile="R", timeout=900, mem_gb=8,
            shape={"program": "empty root block", "limit verdict": "any (trip / no trip), any observed/limit"},
            contract_stubs=["first_exceeded_limit -> records caps, returns any verdict",
                            "cfg::count_program -> empty counts",
                            "cfg::build_program_with_counts -> reachability marker, path cut"]))

PROP = Property(
    "C18",
    anchors={L: "src/analysis/limits.rs", RL: "src/resolver.rs"},
    obligations=[
        O("18.a", "first_exceeded_limit trips iff a metric exceeds its cap, in the staged order, with the real observed/limit values",
          ["analysis::limits::first_exceeded_limit", "analysis::limits::summary_event_bound",
           "analysis::limits::liveness_event_bound", "analysis::facts::ProgramFacts::local_range"],
          "all cap and count values; 0..2 functions with per-function CFG counts"),
        O("18.b", "default caps are positive and are what the resolver passes", ["analysis::limits::DEFAULT_CAPS"], "-"),
        O("18.c", "over-limit path: no plan, exactly one warning, no error, no expensive pass started; within limits the passes start",
          ["resolver::Resolver::emit_analysis_warnings"], "empty program, any verdict"),
    ],
    harnesses=hs,
    assumptions=[
        "ProgramFacts tables are modelled by their lengths (set_len on empty vectors; only len() is read on this path) plus 0..2 real FunctionInfo records with symbolic local ranges inside the locals table",
        "18.c replaces first_exceeded_limit, count_program and build_program_with_counts by contract stubs; message formatting (core::fmt::write) is stubbed out",
        "that an over-limit program is then *executed* with unchanged results is the C03 differential and is not claimed; the runtime half (no plan => nothing pruned) is argued from Runtime::stmt_is_pruned/function_is_pruned reading the plan through Option::is_some_and",
    ],
    stubs=["UnixVirtualMemory::* -> model", "core::fmt::write -> no-op"],
    outside=["programs with more than two functions carrying per-function counts", "executing over-limit programs"],
)
