from ..registry import Harness as H, Obligation as O, Property

F = "bump.rs"
S = "scratch.rs"
hs = []


def add(name, obl, inst="", profile="R", tier="quick", shape=None, file=F, **kw):
    hs.append(H(name, file, inst, obl, profile=profile, tier=tier, shape=shape or {}, **kw))


FULL = {"state": "any (offset<=commit<=capacity, commit chunk-aligned)", "capacity": "4 chunks of 64 KiB",
        "sizes": "all usize", "align": "2^k, k<=12", "commit": "may fail"}
WIN = {"state": "any valid with offset<=192..256", "window": "512-byte model object", "sizes": "<=64",
       "contents": "symbolic tags"}

# 11.a arithmetic instances (R: no fills, no byte of the arena touched)
add("alloc_raw_step", "11.a", shape=FULL)
add("allocate_layout_step", "11.a", shape=dict(FULL, via="Allocator::allocate, any valid Layout"))
add("alloc_slice_u8", "11.a", "alloc_slice_step!(alloc_slice_u8, alloc_slice_u8_nofit, u8);",
    shape=dict(FULL, via="alloc_uninit_slice::<u8>(count), fitting counts"))
add("alloc_slice_u8_nofit", "11.a", shape=dict(FULL, via="alloc_uninit_slice::<u8>(count), non-fitting counts"),
    should_panic=True)
add("alloc_slice_u64", "11.a", "alloc_slice_step!(alloc_slice_u64, alloc_slice_u64_nofit, u64);",
    shape=dict(FULL, via="alloc_uninit_slice::<u64>(count), fitting counts"))
add("alloc_slice_u64_nofit", "11.a",
    shape=dict(FULL, via="alloc_uninit_slice::<u64>(count), non-fitting counts incl. size_of*count overflow"),
    should_panic=True)
# 11.a content instances (window) in both profiles; A includes the 0xCD fill
add("alloc_window_step", "11.a", profile="A", shape=WIN)
add("alloc_window_step", "11.a", profile="R", shape=WIN)
# 11.b grow
for old in (0, 1, 8):
    for zeroed in (False, True):
        n = "grow_%d%s" % (old, "_zeroed" if zeroed else "")
        for prof in ("A", "R"):
            quick = (prof == "A" and old == 8) or (prof == "R")
            add(n, "11.b", "grow_step!(%s, %d, %s);" % (n, old, "true" if zeroed else "false"),
                profile=prof, tier="quick" if quick else "thorough", timeout=900,
                shape=dict(WIN, old=old, new="old..64", zeroed=zeroed, block="tail or strictly inside"))
# 11.c shrink (R: documented behaviour for non-tail is a no-op; A asserts instead)
add("shrink_tail", "11.c", "shrink_step!(shrink_tail, true);", profile="R", shape=dict(WIN, block="tail"))
add("shrink_tail", "11.c", "shrink_step!(shrink_tail, true);", profile="A", shape=dict(WIN, block="tail"))
add("shrink_nontail", "11.c", "shrink_step!(shrink_nontail, false);", profile="R", shape=dict(WIN, block="inside"))
# 11.d reset
add("reset_arith_step", "11.d", shape=dict(FULL, mark="any <= offset"))
add("reset_window_step", "11.d", profile="A", shape=dict(WIN, mark="any <= offset", fill="0xDD poison modelled"))
add("reset_window_step", "11.d", profile="R", shape=dict(WIN, mark="any <= offset"))
# 11.e decommit
add("decommit_step", "11.e", shape=FULL)
# 11.g
add("new_two_allocs_smoke", "11.g", profile="R", shape={"capacity": "any <= 3 chunks", "blocks": "<=16 bytes"})
add("new_two_allocs_smoke", "11.g", profile="A", shape={"capacity": "any <= 3 chunks", "blocks": "<=16 bytes"})
add("contains_ptr_any", "11.g", shape={"address": "any 64-bit delta from the base"})
# alignment above the page size: known finding (alignment is applied to the offset, not the address)
add("alloc_align_above_page", "11.a", input_class="align>4096",
    shape={"align": "2^13..2^16", "base": "any page-aligned address", "bytes": "<=64"},
    replay="c11_align")

# 11.f scratch arenas
for prof in ("A", "R"):
    add("scratch_pick", "11.f", profile=prof, file=S,
        shape={"conflict": "None | scratch0 | scratch1 | foreign arena", "state": "any valid offsets<=128"})
    add("scratch_nested_lifo", "11.f", profile=prof, file=S,
        shape={"nesting": 2, "allocs": "<=32 bytes each", "state": "any valid offsets<=128"})
    add("scratch_init_reinit", "11.f", profile=prof, file=S,
        shape={"prior state": "any valid offsets<=128", "init": "on initialised arenas"})
add("scratch_stale_borrow_guard", "11.f", profile="A", file=S, should_panic=True,
    shape={"scenario": "older borrow used while a newer one is live"})

PROP = Property(
    "C11",
    anchors={F: "src/arena/bump.rs", S: "src/arena/scratch.rs"},
    obligations=[
        O("11.a", "allocation: one step from an arbitrary valid state",
          ["arena::bump::Arena::alloc_raw", "arena::bump::Arena::alloc_raw_bump", "Allocator::allocate",
           "Allocator::allocate_zeroed", "arena::bump::Arena::alloc_uninit_slice"],
          "all usize sizes/offsets, align 2^0..2^12, capacity 4 chunks; content instances in a 512-byte window"),
        O("11.b", "grow / grow_zeroed of a tail or inner block", ["Allocator::grow", "Allocator::grow_zeroed"],
          "old in {0,1,8}, new <= 64, window 512 bytes"),
        O("11.c", "shrink tail / non-tail", ["Allocator::shrink"], "sizes <= 64"),
        O("11.d", "reset to a mark, then allocate", ["arena::bump::Arena::reset"], "all marks <= offset"),
        O("11.e", "decommit, then allocate", ["arena::bump::Arena::decommit"], "all valid states"),
        O("11.f", "scratch arenas: flip/flop choice, nested borrow/drop, re-initialisation",
          ["arena::scratch::scratch_arena", "arena::scratch::init", "ScratchArena::drop", "arena::debug::Arena"],
          "two nesting levels, allocations <= 32 bytes"),
        O("11.g", "from Arena::new: two blocks disjoint, reset reuses, contains_ptr", ["arena::bump::Arena::new",
          "arena::bump::Arena::contains_ptr"], "capacity <= 3 chunks"),
    ],
    harnesses=hs,
    assumptions=[
        "virtual-memory back end replaced by recording stubs: reserve returns a fresh model object (64..512 bytes standing for the 256 KiB reservation; any access outside it is a CBMC bounds failure), commit may fail nondeterministically, decommit/release record their arguments",
        "one-step induction from any state with capacity = 4 chunks, commit a chunk multiple <= capacity, offset <= commit (I11); I11 is asserted after every step and established from Arena::new",
        "content instances restrict offset/sizes to a 512-byte window (<=256 / <=64) while commit/capacity keep their real magnitudes",
        "base address is page-aligned (what mmap guarantees); alignments <= 4096 in the main instances",
        "Windows/wasm virtual-memory back ends and real mmap/mprotect behaviour are outside the claim",
    ],
    stubs=["UnixVirtualMemory::reserve -> reserve_512", "UnixVirtualMemory::commit -> recording stub that may fail",
           "UnixVirtualMemory::decommit -> recording stub", "UnixVirtualMemory::release -> no-op"],
    outside=["capacities other than 4 chunks (the code only compares against capacity)", "alignments above 2^16",
             "Vec/ArenaString growth policies of std (they call grow, which is covered)", "real OS memory behaviour"],
)
