from ..registry import Harness as H, Obligation as O, Property
from .c17 import compositions

F = "process_common.rs"
hs = []

for total in range(0, 5):
    for sched in compositions(total):
        for cap in range(0, 6):
            if cap > total + 1:
                continue
            k = max(len(sched), 1)
            sc = sched + [0] * (k - len(sched))
            quick = total <= 3 and cap <= 4
            for code in ((1, 2) if (total, cap) in ((2, 1), (3, 3)) else (1,)):
                nm = "cap%d_n%d_%s_s%d" % (cap, total, "_".join(str(x) for x in sched) or "none", code)
                hs.append(H(nm, F, "capture_kernel!(%s, %d, %d, %d, [%s], %d, %d);" % (
                    nm, total, k, cap, ", ".join(str(x) for x in sc), code, total + 3),
                    "16.a", profile="R", tier="quick" if quick else "thorough", timeout=600, mem_gb=4,
                    shape={"payload_bytes": total, "cap": cap, "chunk_schedule": sched, "stream_code": code,
                           "prior_flag": "any of 0,1,2"}))
hs.append(H("stream_codes", F, "", "16.b", profile="R", shape={"codes": "both streams"}))

PROP = Property(
    "C16",
    anchors={F: "src/sys/process_common.rs"},
    obligations=[
        O("16.a", "read_captured_stream: complete-and-flag-untouched, or overflow flag set; never silent truncation",
          ["sys::process_common::read_captured_stream"], "payload <= 4 bytes, cap <= 5, every chunk schedule, any prior flag"),
        O("16.b", "stream code round trip; codes non-zero, distinct and equal to the ones the reader threads use",
          ["sys::process_common::stream_code", "sys::process_common::stream_from_code"], "both streams"),
    ],
    harnesses=hs,
    assumptions=[
        "only the sequential capture kernel is decided: reader threads, the poll loop, child exit timing, terminate_child, the post-exit re-check in join_capture and the nine policy combinations are outside the claim (Kani has no thread or process model)",
        "the pipe is modelled as a Read that delivers the payload in a concrete chunk schedule and then returns 0",
    ],
    stubs=[],
    outside=["thread/OS schedules", "payloads above 4 bytes", "invalid UTF-8 and timeout paths (std String::from_utf8 / child.kill)"],
)
