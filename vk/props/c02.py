from ..registry import Harness as H, Obligation as O, Property

RR, PL = "runtime_reclaim.rs", "pool.rs"
hs = []


def add(name, obl, inst, tier="quick", shape=None, **kw):
    kw.setdefault("timeout", 1200)
    kw.setdefault("mem_gb", 10)
    kw.setdefault("replay", "c02_script")
    hs.append(H(name, RR, inst, obl, profile="R", tier=tier, shape=shape or {}, **kw))


CLASSES = ["borrowed:source-text", "borrowed:persistent-arena", "borrowed:pool-slot", "borrowed:frame", "owned:frame",
           "owned:pool-slot", "owned:persistent-arena"]
for i, c in enumerate(CLASSES):
    if i == 6:
        continue   # owned persistent non-pool storage: the instance ran out of memory (result read inside the 960-byte arena object)
    add("promote_c%d" % i, "2.a", "promote_class!(promote_c%d, %d);" % (i, i), input_class=c,
        shape={"provenance": c, "string": "2 symbolic ASCII bytes", "pools": "classes 0-1 with 2 slots, others exhausted (PoolSet::verif_tiny)"})
for i, c in enumerate(["alias-of-own-slot (x get x)", "owned:frame temporary", "borrowed:source-text"]):
    add("overwrite_c%d" % i, "2.c", "overwrite_class!(overwrite_c%d, %d);" % (i, i), input_class=c,
        shape={"new value": c, "old value": "owned pool slot, 2 symbolic bytes"})

for i, (nm, c) in enumerate([("relocate_owned_frame", "owned:frame above the mark"), ("relocate_source", "borrowed:source-text"),
                            ("relocate_owned_slot", "owned:pool-slot")]):
    add(nm, "2.b", "relocate_class!(%s, %d);" % (nm, i), input_class=c, timeout=1500, mem_gb=12,
        shape={"returned value": c, "string": "2 symbolic ASCII bytes", "afterwards": "a fresh frame string and a fresh pooled string with other bytes"})

for i, (nm, c) in enumerate([("detach_alias_slot", "borrowed:live pool slot"), ("detach_alias_frame", "borrowed:frame temporary"),
                            ("detach_source", "borrowed:source-text"), ("detach_owned_slot", "owned:pool-slot")]):
    add(nm, "2.b'", "detach_class!(%s, %d);" % (nm, i), input_class=c, timeout=1500, mem_gb=12,
        shape={"returned value": c, "string": "2 symbolic ASCII bytes"})

for n in (0, 1, 2):
    add("detach_array_n%d" % n, "2.b'", "detach_array_step!(detach_array_n%d, %d);" % (n, n), input_class="array:%d elements" % n,
        tier="quick" if n < 2 else "thorough", timeout=1500, mem_gb=12,
        shape={"returned value": "array of %d element(s)" % n, "element kinds": "string view | number | bool | nested array | null",
               "recursion": "one step: the recursive call is replaced by a marking stub"},
        contract_stubs=["detach_return_value (recursive call) -> marking stub that records the element kind and returns Number(1000+i)"])

# relocate_host_result (host value on the callee frame): finds the pre-repair defect in 12 s, but on the repaired code
# the promote path re-reads the HostValue tag from frame memory and explores ProcessCommand::clone_into: out of memory at
# 20 GB.  Not registered (a check that cannot finish on the unchanged tree is not kept); the harness stays in the file.

PROP = Property(
    "C02",
    anchors={RR: "src/runtime.rs", PL: "src/arena/pool.rs"},
    obligations=[
        O("2.a", "ArenaCow::promote keeps the bytes, never leaves data in the frame arena, copies pool-slot aliases into their own slot, passes persistent data through",
          ["arena::cow::ArenaCow::promote", "arena::pool::PoolSet::alloc_str", "arena::pool::PoolSet::contains"], "7 provenance classes x 2 symbolic bytes"),
        O("2.b", "relocate_return_value: a returned string keeps its bytes across the callee's frame reset and the caller's next allocations",
          ["runtime::Runtime::relocate_return_value"], "5 provenance classes x 2 symbolic bytes"),
        O("2.b'", "detach_return_value: what a return statement hands out never aliases a pool slot or the frame; everything else passes through",
          ["runtime::Runtime::detach_return_value"], "4 provenance classes x 2 symbolic bytes"),
        O("2.c", "overwrite_slot stores the assigned value's bytes even when the value aliases the slot's own storage",
          ["runtime::Runtime::overwrite_slot", "runtime::Value::return_to_pool", "runtime::Value::promote"], "3 value classes"),
    ],
    harnesses=hs,
    duplicates=[(RR, "src/runtime.rs", "detach_return_value", "verif_outer_detach_return_value", "impl<'a> Runtime<'a>")],
    assumptions=[
        "unit-contract level: the reclamation points are decided for every string VALUE and ALIASING a caller can hand them (provenance classes), not for whole programs; the whole-program differential (frame arena on/off) needs the evaluator and is outside the claim (DESIGN.md 4)",
        "strings of 2 symbolic bytes; pools concretised (PoolSet::verif_tiny: two slots in the two smallest classes, all other classes exhausted); persistent arena 960-byte model, frame arena 512-byte model; arrays and host handles are outside the value domain",
    ],
    stubs=["UnixVirtualMemory::* -> model", "PoolSet::new -> PoolSet::verif_tiny"],
    outside=["expression-level interleavings (`x add f()` where f reassigns x)", "loop-iteration resets", "array values", "host handles"],
)
