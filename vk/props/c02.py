from ..registry import Harness as H, Obligation as O, Property

RR, PL = "runtime_reclaim.rs", "pool.rs"
hs = []


def add(name, obl, inst, tier="quick", shape=None, **kw):
    kw.setdefault("timeout", 1200)
    kw.setdefault("mem_gb", 10)
    kw.setdefault("replay", "c02_script")
    hs.append(H(name, RR, inst, obl, profile="R", tier=tier, shape=shape or {}, **kw))


CLASSES = ["borrowed:source-text", "borrowed:persistent-arena", "borrowed:pool-slot", "borrowed:frame", "owned:frame",
           "owned:pool-slot", "owned:persistent-arena"]
for i, c in enumerate(CLASSES):
    add("promote_c%d" % i, "2.a", "promote_class!(promote_c%d, %d);" % (i, i), input_class=c,
        shape={"provenance": c, "string": "2 symbolic ASCII bytes", "pools": "classes 0-1 with 2 slots, others exhausted (PoolSet::verif_tiny)"})
for i, c in enumerate(["alias-of-own-slot (x get x)", "owned:frame temporary", "borrowed:source-text"]):
    add("overwrite_c%d" % i, "2.c", "overwrite_class!(overwrite_c%d, %d);" % (i, i), input_class=c,
        shape={"new value": c, "old value": "owned pool slot, 2 symbolic bytes"})

PROP = Property(
    "C02",
    anchors={RR: "src/runtime.rs", PL: "src/arena/pool.rs"},
    obligations=[
        O("2.a", "ArenaCow::promote keeps the bytes, never leaves data in the frame arena, copies pool-slot aliases into their own slot, passes persistent data through",
          ["arena::cow::ArenaCow::promote", "arena::pool::PoolSet::alloc_str", "arena::pool::PoolSet::contains"], "7 provenance classes x 2 symbolic bytes"),
        O("2.c", "overwrite_slot stores the assigned value's bytes even when the value aliases the slot's own storage",
          ["runtime::Runtime::overwrite_slot", "runtime::Value::return_to_pool", "runtime::Value::promote"], "3 value classes"),
    ],
    harnesses=hs,
    assumptions=[
        "unit-contract level: the reclamation points are decided for every string VALUE and ALIASING a caller can hand them (provenance classes), not for whole programs; the whole-program differential (frame arena on/off) needs the evaluator and is outside the claim (DESIGN.md 4)",
        "strings of 2 symbolic bytes; pools concretised (PoolSet::verif_tiny: two slots in the two smallest classes, all other classes exhausted); persistent arena 960-byte model, frame arena 512-byte model; arrays and host handles are outside the value domain",
    ],
    stubs=["UnixVirtualMemory::* -> model", "PoolSet::new -> PoolSet::verif_tiny"],
    outside=["expression-level interleavings (`x add f()` where f reassigns x)", "loop-iteration resets", "array values", "host handles"],
)
