from ..registry import Harness as H, Obligation as O, Property

SC = "scanner.rs"
hs = []


def add(name, obl, inst, file=SC, tier="quick", shape=None, **kw):
    hs.append(H(name, file, inst, obl, profile="R", tier=tier, shape=shape or {}, **kw))


ALPH = "ASCII + 2- and 3-byte UTF-8 sequences (validated)"
for n in (1, 2, 3, 4):
    for p in range(0, n + 1):
        nm = "helpers_n%d_p%d" % (n, p)
        add(nm, "7.a", "helpers_step!(%s, %d, %d, %d);" % (nm, n, p, n + 3), tier="quick" if n <= 3 else "thorough",
            timeout=900, shape={"text_bytes": n, "cursor": p, "alphabet": ALPH, "routine": "any of 7 helper routines"})
for n in (1, 2, 3, 4):
    for p in range(0, n):
        for which, rn in ((0, "number"), (1, "ident"), (2, "string")):
            nm = "scan_%s_n%d_p%d" % (rn, n, p)
            quick = n <= 3 or (n == 4 and p == 0 and which != 1)
            add(nm, "7.b" if which == 0 else ("7.c" if which == 1 else "7.d"),
                "scan_step!(%s, %d, %d, %d, %d);" % (nm, n, p, which, n + 3), tier="quick" if quick else "thorough",
                timeout=1200, mem_gb=8, shape={"text_bytes": n, "cursor": p, "alphabet": ALPH, "routine": "scan_" + rn},
                contract_stubs=["Lexer::next_token -> precondition check (cursor <= len, on a boundary), returns EOF"],
                replay="c07_text")
for n in (0, 1, 2, 3, 4):
    for p in range(0, n + 1):
        nm = "next_token_n%d_p%d" % (n, p)
        add(nm, "7.e", "next_token_step!(%s, %d, %d, %d);" % (nm, n, p, n + 3), tier="quick" if n <= 3 else "thorough",
            timeout=1500, mem_gb=12, shape={"text_bytes": n, "cursor": p, "alphabet": ALPH}, replay="c07_text",
            contract_stubs=["scan_number / scan_identifier_or_keyword / scan_string -> cursor advances to a later boundary (their guarantee, 7.b-7.d)"])

DG = "diagnostics.rs"
for n, tier in ((0, "quick"), (1, "quick"), (2, "quick"), (3, "quick"), (4, "quick"), (5, "thorough")):
    nm = "line_col_n%d" % n
    add(nm, "7.f", "line_col_step!(%s, %d, %d);" % (nm, n, n + 4), file=DG, tier=tier, timeout=1200, mem_gb=10,
        shape={"text_bytes": n, "position": "any boundary 0..N", "alphabet": ALPH + " incl. CR, LF, CRLF, tab"})
for n, tier in ((1, "quick"), (2, "quick"), (3, "quick")):   # N = 4 ran out of memory at 12 GB (430 s) in the thorough tier: not registered
    nm = "tabs_n%d" % n
    add(nm, "7.f", "tabs_step!(%s, %d, %d);" % (nm, n, 4 * n + 3), file=DG, tier=tier, timeout=1200, mem_gb=10,
        shape={"text_bytes": n, "alphabet": ALPH + " incl. tab"})

FA = "facts.rs"
for nl in (0, 1, 2, 3):
    for owner in (0, 1):
        nm = "local_range_nl%d_o%d" % (nl, owner)
        add(nm, "7.g", "local_range_step!(%s, %d, %d);" % (nm, nl, owner), file=FA, timeout=900, mem_gb=10,
            tier="quick" if nl in (0, 2) else "thorough",
            input_class="interleaved-owners" if nl >= 2 else "any",
            shape={"functions": 2, "locals_so_far": nl, "owner": owner, "ranges": "any disjoint ranges inside the locals table",
                   "step": "one push_param"}, replay="c07_local_range")

PROP = Property(
    "C07",
    anchors={SC: "src/syntax/scanner.rs", DG: "src/diagnostics.rs", FA: "src/analysis/facts.rs"},
    obligations=[
        O("7.a", "helper routines keep the cursor invariant from any cursor", ["syntax::scanner::Lexer::skip_whitespace",
          "syntax::scanner::Lexer::skip_comment", "syntax::scanner::Lexer::read_word", "syntax::scanner::Lexer::try_consume_word",
          "syntax::scanner::Lexer::scan_punctuation"], "texts of exactly N<=3 (4 thorough) bytes, every cursor"),
        O("7.b", "scan_number: cursor invariant also at the re-entry of next_token; spans and lexeme inside the text",
          ["syntax::scanner::Lexer::scan_number"], "N<=3 (+N=4 cursor 0)"),
        O("7.c", "scan_identifier_or_keyword incl. multi-word look-ahead and rollback", ["syntax::scanner::Lexer::scan_identifier_or_keyword"], "N<=3"),
        O("7.d", "scan_string incl. escapes and unterminated forms", ["syntax::scanner::Lexer::scan_string"], "N<=3 (+N=4 cursor 0)"),
        O("7.e", "next_token dispatcher: token span, progress, non-ASCII branch", ["syntax::scanner::Lexer::next_token"], "N<=2 (3 thorough)"),
        O("7.f", "building blocks of the diagnostic renderer are total for every in-bounds boundary position: line/column computation (with the facts its slice expressions rely on), tab expansion, visual column",
          ["diagnostics::Diagnostics::line_col_from_span", "diagnostics::Diagnostics::compute_line_starts",
           "diagnostics::Diagnostics::expand_tabs", "diagnostics::Diagnostics::visual_col"],
          "texts of N<=4 (5 thorough) bytes incl. CR/LF/CRLF/tab/2-byte characters; render_diagnostic as a whole did not fit (drop glue of its temporary vectors) and is outside the claim"),
        O("7.g", "indexing contract of the static checker: every local a function owns lies inside ProgramFacts::local_range(function) (one inductive step of push_param/push_local_decl)",
          ["analysis::facts::ProgramFacts::push_param", "analysis::facts::ProgramFacts::push_local_with_kind", "analysis::facts::ProgramFacts::local_range"],
          "two functions, <= 3 earlier locals, any disjoint ranges"),
    ],
    harnesses=hs,
    assumptions=[
        "per-routine (assume-guarantee) contracts from an arbitrary cursor satisfying I07 (cursor <= len, on a character boundary); the recursive next_token call inside scan_number is replaced by a contract stub that checks I07 at the call site",
        "text alphabet: all ASCII bytes and all 2- and 3-byte UTF-8 sequences; 4-byte sequences are outside the bound",
        "memchr2 scalar stub; message formatting stubbed; ArenaString container model for the escape buffer (appends into pre-allocated capacity)",
        "the parser and the resolver are not executed symbolically (arena AST + recursion); their spans are built from token spans only, which is an argument, not a check",
    ],
    stubs=["memchr_rs::memchr2::memchr2 -> scalar loop", "core::fmt::write -> no-op", "ArenaString::{new_in,reserve_exact,push_str,push} -> container model"],
    outside=["texts longer than 4 bytes (composition of the per-routine contracts over longer texts is argued, not checked)",
             "parser totality", "resolver totality", "4-byte UTF-8 sequences"],
)
