"""Run Kani harnesses under resource caps and parse the per-check results."""
import os
import re
import shutil
import subprocess
import time

CHECK_RE = re.compile(
    r"^Check (\d+): (.+?)\n\t - Status: (\w+)\n\t - Description: \"(.*?)\"\n\t - Location: (.*?)$",
    re.M | re.S,
)


class Check:
    __slots__ = ("name", "status", "desc", "loc", "func", "cls")

    def __init__(self, name, status, desc, loc):
        if len(desc) >= 2 and desc[0] == '"' and desc[-1] == '"':
            desc = desc[1:-1]   # assert!(.., "msg") is printed with its own quotes
        self.name, self.status, self.desc, self.loc = name, status, desc, loc
        m = re.search(r" in function (.*)$", loc)
        self.func = m.group(1).strip() if m else ""
        # property class is the token before the trailing number: foo.assertion.3
        parts = name.rsplit(".", 2)
        self.cls = parts[-2] if len(parts) >= 3 else ""

    def as_dict(self):
        return {"check": self.name, "status": self.status, "description": self.desc,
                "location": self.loc}


class Result:
    def __init__(self, harness):
        self.harness = harness
        self.verdict = "inconclusive"   # success | failure | inconclusive
        self.reason = ""
        self.checks = []
        self.failed = []
        self.covers_sat = []
        self.covers_unsat = []
        self.undetermined = 0
        self.verification_time = None
        self.wall = 0.0
        self.rss_kb = 0
        self.functions = []
        self.log = ""
        self.solver = "cadical"
        self.stubs = []
        self.stats = {}

    @property
    def n_checks(self):
        return len([c for c in self.checks if c.cls != "cover"])


def parse_output(res, out, should_panic=False):
    res.expected_panics = []
    for m in CHECK_RE.finditer(out):
        c = Check(m.group(2), m.group(3), m.group(4), m.group(5).strip())
        res.checks.append(c)
        if c.cls == "cover" and c.desc.startswith("never:"):
            # a cover that must NOT be reachable: SATISFIED is a violation of that clause
            if c.status == "SATISFIED":
                res.failed.append(c)
        elif should_panic and c.cls == "assertion" and c.status == "FAILURE" \
                and not c.desc.startswith("attempt to "):
            # (arithmetic-overflow checks are never an *expected* panic: in release they wrap silently)
            res.expected_panics.append(c)
        elif c.cls == "cover":
            if c.status == "SATISFIED":
                res.covers_sat.append(c)
            else:
                res.covers_unsat.append(c)
        elif c.status == "FAILURE" and c.desc.startswith("NaN on "):
            # CBMC's --nan-check reports that a float operation CAN produce NaN (inf - inf, 0/0).  In Rust that
            # is defined IEEE-754 behaviour, not a panic and not UB: counted, never a failed check.
            res.nan_reports = getattr(res, "nan_reports", 0) + 1
        elif c.status == "FAILURE":
            res.failed.append(c)
        elif c.status == "UNDETERMINED":
            res.undetermined += 1
    m = re.search(r"Verification Time: ([0-9.]+)s", out)
    if m:
        res.verification_time = float(m.group(1))
    res.stubs = sorted(set(re.findall(r"- Stub: (.*)$", out, re.M)))
    for key, rx in (("symex_steps", r"size of program expression: (\d+) steps"),
                    ("vccs", r"Generated (\d+) VCC\(s\)"),
                    ("vccs_after_simplification", r"VCC\(s\), (\d+) remaining after simplification"),
                    ("sat_variables", r"(\d+) variables, \d+ clauses"),
                    ("sat_clauses", r"\d+ variables, (\d+) clauses")):
        m = re.search(rx, out)
        if m:
            res.stats[key] = int(m.group(1))
    for key, rx in (("symex_s", r"Runtime Symex: ([0-9.e+-]+)s"),
                    ("solver_s", r"Runtime Solver: ([0-9.e+-]+)s"),
                    ("decision_procedure_s", r"Runtime decision procedure: ([0-9.e+-]+)s")):
        m = re.search(rx, out)
        if m:
            res.stats[key] = float(m.group(1))
    ok = "VERIFICATION:- SUCCESSFUL" in out
    failed = "VERIFICATION:- FAILED" in out
    if "error: could not compile" in out or re.search(r"^error(\[E\d+\])?:", out, re.M):
        if not ok and not failed:
            res.verdict, res.reason = "inconclusive", "build failure"
            return
    if "Status: ERROR" in out or "CBMC failed" in out or "out of memory" in out.lower():
        res.verdict, res.reason = "inconclusive", "CBMC error / out of memory"
        return
    if should_panic and not res.expected_panics and (ok or failed):
        res.failed.append(Check("harness.expected_panic.0", "FAILURE",
                                "expected-panic: the call returned normally where a clean failure is required", ""))
        res.verdict = "failure"
        return
    if should_panic and failed and not res.failed and res.expected_panics and res.undetermined == 0 \
            and "other than panics" not in out:
        ok = True
    if failed and not res.failed and getattr(res, "nan_reports", 0) and res.undetermined == 0 and not should_panic:
        ok = True   # the only FAILURE lines were NaN reports
    if ok and not res.failed:
        if res.covers_unsat:
            res.verdict = "inconclusive"
            res.reason = "cover not satisfied: " + "; ".join(c.desc for c in res.covers_unsat)
        else:
            res.verdict = "success"
        return
    if res.failed and (failed or ok):
        res.verdict = "failure"
        return
    if failed:
        res.verdict, res.reason = "inconclusive", "FAILED without a failed check (unsupported construct / undetermined)"
        return
    res.verdict, res.reason = "inconclusive", "no verification result in output"


def _crate_functions(goto_out):
    """naijascript functions with a body in the harness's goto program."""
    from .stage import CRATE_MODULE_ROOTS
    try:
        p = subprocess.run(["goto-instrument", "--list-goto-functions", goto_out],
                           capture_output=True, text=True, timeout=120)
    except Exception:
        return []
    fns = set()
    for line in p.stdout.splitlines():
        if "body not available" in line or "/*" not in line:
            continue
        name = line.split("/*")[0].strip()
        if "verif_" in name or "kani::" in name:
            continue
        bare = name.lstrip("<&")
        if bare.startswith("impl "):
            continue
        if any(bare.startswith(r + "::") for r in CRATE_MODULE_ROOTS) or \
           any((" as " + r + "::") in name for r in CRATE_MODULE_ROOTS):
            fns.add(name)
    return sorted(fns)


def run_harness(stage, full_name, profile, timeout_s, mem_gb, solver=None,
                extra_args=(), list_functions=True, keep_target=False, should_panic=False):
    """Run one harness in its own target dir.  profile: 'A' (debug assertions on) | 'R' (off)."""
    res = Result(full_name)
    res.solver = solver or "cadical"
    short = re.sub(r"[^A-Za-z0-9_]", "_", full_name.split("::")[-1])
    tdir = os.path.join(stage.targets, "%s_%s_%s" % (short, profile, res.solver))
    cmd = ["cargo", "kani", "--harness", full_name, "--exact", "-Z", "stubbing",
           "--target-dir", tdir]
    if solver:
        cmd += ["--solver", solver]
    cmd += list(extra_args)
    env = dict(os.environ)
    env["CARGO_NET_OFFLINE"] = "true"
    env["CARGO_PROFILE_DEV_DEBUG_ASSERTIONS"] = "true" if profile == "A" else "false"
    env["CARGO_TERM_COLOR"] = "never"
    env.pop("RUSTFLAGS", None)
    shell = "ulimit -v %d; exec timeout -k 10 %d %s" % (
        int(mem_gb * 1024 * 1024), int(timeout_s), " ".join("'%s'" % a for a in cmd))
    t0 = time.time()
    p = subprocess.run(["bash", "-c", shell], cwd=stage.crate, env=env,
                       stdout=subprocess.PIPE, stderr=subprocess.STDOUT, text=True,
                       errors="replace")
    res.wall = time.time() - t0
    out = p.stdout
    res.log = out
    if p.returncode in (124, 137):
        res.verdict, res.reason = "inconclusive", "timeout after %ds" % timeout_s
    else:
        parse_output(res, out, should_panic)
        if res.verdict == "inconclusive" and not res.reason:
            res.reason = "exit status %d" % p.returncode
    if list_functions and res.verdict in ("success", "failure"):
        for root, _d, files in os.walk(tdir):
            for f in files:
                if f.endswith(".out") and not f.endswith(".symtab.out") and short in f:
                    res.functions = _crate_functions(os.path.join(root, f))
                    break
            if res.functions:
                break
    if not keep_target:
        shutil.rmtree(tdir, ignore_errors=True)
    return res


def concrete_playback_values(stage, full_name, profile, timeout_s, mem_gb):
    """Re-run a failing harness with concrete playback and return (values, unit_test_text).
    values: list of byte lists, one per kani::any() call in execution order."""
    short = re.sub(r"[^A-Za-z0-9_]", "_", full_name.split("::")[-1])
    tdir = os.path.join(stage.targets, "%s_%s_cp" % (short, profile))
    cmd = ["cargo", "kani", "--harness", full_name, "--exact", "-Z", "stubbing",
           "-Z", "concrete-playback", "--concrete-playback=print", "--target-dir", tdir]
    env = dict(os.environ)
    env["CARGO_NET_OFFLINE"] = "true"
    env["CARGO_PROFILE_DEV_DEBUG_ASSERTIONS"] = "true" if profile == "A" else "false"
    env["CARGO_TERM_COLOR"] = "never"
    shell = "ulimit -v %d; exec timeout -k 10 %d %s" % (
        int(mem_gb * 1024 * 1024), int(timeout_s), " ".join("'%s'" % a for a in cmd))
    p = subprocess.run(["bash", "-c", shell], cwd=stage.crate, env=env,
                       stdout=subprocess.PIPE, stderr=subprocess.STDOUT, text=True,
                       errors="replace")
    shutil.rmtree(tdir, ignore_errors=True)
    out = p.stdout
    m = re.search(r"```\n(.*?#\[test\].*?)```", out, re.S)
    if not m:
        m = re.search(r"(#\[test\]\nfn kani_concrete_playback.*?\n}\n)", out, re.S)
    if not m:
        return None, None
    test = m.group(1)
    vals = []
    for vm in re.finditer(r"vec!\[([0-9,\s]*)\],?\s*$", test, re.M):
        body = vm.group(1).strip()
        vals.append([int(x) for x in body.split(",") if x.strip()] if body else [])
    return vals, test
