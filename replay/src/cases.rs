//! Property-specific native cases.
use std::alloc::{Allocator, Layout};

use naijascript::arena::Arena;

pub fn dispatch(name: &str, args: &[String]) -> u8 {
    match name {
        "c11-align" => c11_align(args),
        "c11-overflow" => c11_overflow(args),
        _ => {
            eprintln!("unknown case {name}");
            2
        }
    }
}

/// C11: a block requested with an alignment above the page size must be aligned (address, not offset).
/// Exit 1 when a misaligned block is observed on a real mmap-backed arena.
fn c11_align(args: &[String]) -> u8 {
    let shift: u32 = args.first().and_then(|s| s.parse().ok()).unwrap_or(16);
    let align = 1usize << shift;
    let mut keep = Vec::new();
    for _ in 0..64 {
        let arena = Arena::new(4 * 64 * 1024).unwrap();
        let p = arena.allocate(Layout::from_size_align(8, align).unwrap()).unwrap();
        let addr = p.cast::<u8>().as_ptr() as usize;
        if addr % align != 0 {
            println!("MISALIGNED addr={addr:#x} align={align:#x}");
            return 1;
        }
        keep.push(arena); // keep the mapping so the next mmap lands elsewhere
    }
    println!("aligned in 64 arenas");
    0
}

/// C11: a request whose size computation overflows must fail, not return an out-of-bounds slice.
/// (Meaningful in --release, where the unchecked arithmetic wraps silently.)
fn c11_overflow(_args: &[String]) -> u8 {
    let arena = Arena::new(64 * 1024).unwrap();
    let _ = arena.alloc_uninit_slice::<u8>(16);
    let r = std::panic::catch_unwind(std::panic::AssertUnwindSafe(|| arena.alloc_uninit_slice::<u8>(usize::MAX).len()));
    let r2 = std::panic::catch_unwind(std::panic::AssertUnwindSafe(|| {
        arena.alloc_uninit_slice::<u64>(usize::MAX / 8 + 2).len()
    }));
    match (r, r2) {
        (Err(_), Err(_)) => {
            println!("both oversized requests failed cleanly");
            0
        }
        (a, b) => {
            println!("RETURNED out-of-bounds slice: u8 request -> {a:?}, u64 request -> {b:?}");
            1
        }
    }
}
