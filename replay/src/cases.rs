//! Property-specific native cases.
use std::alloc::{Allocator, Layout};

use naijascript::arena::Arena;

pub fn dispatch(name: &str, args: &[String]) -> u8 {
    match name {
        "c11-align" => c11_align(args),
        "c11-overflow" => c11_overflow(args),
        "c13-find" => c13_find(args),
        "c07-lex" => c07_lex(args),
        "c10-layout" => c10_layout(args),
        "c10-first-token" => c10_first_token(args),
        "c13-replace" => c13_replace(args),
        _ => {
            eprintln!("unknown case {name}");
            2
        }
    }
}

/// C11: a block requested with an alignment above the page size must be aligned (address, not offset).
/// Exit 1 when a misaligned block is observed on a real mmap-backed arena.
fn c11_align(args: &[String]) -> u8 {
    let shift: u32 = args.first().and_then(|s| s.parse().ok()).unwrap_or(16);
    let align = 1usize << shift;
    let mut keep = Vec::new();
    for _ in 0..64 {
        let arena = Arena::new(4 * 64 * 1024).unwrap();
        let p = arena.allocate(Layout::from_size_align(8, align).unwrap()).unwrap();
        let addr = p.cast::<u8>().as_ptr() as usize;
        if addr % align != 0 {
            println!("MISALIGNED addr={addr:#x} align={align:#x}");
            return 1;
        }
        keep.push(arena); // keep the mapping so the next mmap lands elsewhere
    }
    println!("aligned in 64 arenas");
    0
}

/// C11: a request whose size computation overflows must fail, not return an out-of-bounds slice.
/// (Meaningful in --release, where the unchecked arithmetic wraps silently.)
fn c11_overflow(_args: &[String]) -> u8 {
    let arena = Arena::new(64 * 1024).unwrap();
    let _ = arena.alloc_uninit_slice::<u8>(16);
    let r = std::panic::catch_unwind(std::panic::AssertUnwindSafe(|| arena.alloc_uninit_slice::<u8>(usize::MAX).len()));
    let r2 = std::panic::catch_unwind(std::panic::AssertUnwindSafe(|| {
        arena.alloc_uninit_slice::<u64>(usize::MAX / 8 + 2).len()
    }));
    match (r, r2) {
        (Err(_), Err(_)) => {
            println!("both oversized requests failed cleanly");
            0
        }
        (a, b) => {
            println!("RETURNED out-of-bounds slice: u8 request -> {a:?}, u64 request -> {b:?}");
            1
        }
    }
}

fn unhex(s: &str) -> Vec<u8> {
    (0..s.len() / 2).map(|i| u8::from_str_radix(&s[2 * i..2 * i + 2], 16).unwrap()).collect()
}

/// C13: `find` against std's `str::find` (bytes given as hex; must be valid UTF-8).
/// Exit 1 on a different answer; a panic or a hang (driver timeout) is a failure as well.
fn c13_find(args: &[String]) -> u8 {
    let (h, n) = (unhex(&args[0]), unhex(&args[1]));
    let (Ok(h), Ok(n)) = (std::str::from_utf8(&h), std::str::from_utf8(&n)) else {
        println!("not UTF-8: skipped");
        return 0;
    };
    let got = naijascript::builtins::find(h, n);
    let want = h.find(n);
    println!("find({h:?}, {n:?}) = {got:?}, std = {want:?}");
    u8::from(got != want)
}

/// C13: `replace` against std's `str::replace`.
fn c13_replace(args: &[String]) -> u8 {
    let (h, f, t) = (unhex(&args[0]), unhex(&args[1]), unhex(&args[2]));
    let (Ok(h), Ok(f), Ok(t)) = (std::str::from_utf8(&h), std::str::from_utf8(&f), std::str::from_utf8(&t)) else {
        println!("not UTF-8: skipped");
        return 0;
    };
    let arena = Arena::new(1024 * 1024).unwrap();
    let got = naijascript::builtins::replace(&arena, h, f, t);
    let want = h.replace(f, t);
    println!("replace({h:?}, {f:?}, {t:?}) = {:?}, std = {want:?}", got.as_str());
    u8::from(got.as_str() != want)
}

/// C07: lex a text (hex) with the real Lexer, check every token and diagnostic span, render the
/// diagnostics.  Exit 1 on a span outside the text / unordered / inside a character; panics and
/// aborts propagate.
fn c07_lex(args: &[String]) -> u8 {
    use naijascript::syntax::scanner::Lexer;
    let bytes = unhex(&args[0]);
    let Ok(src) = std::str::from_utf8(&bytes) else {
        println!("not UTF-8: skipped");
        return 0;
    };
    let arena = Arena::new(4 * 1024 * 1024).unwrap();
    let mut lexer = Lexer::new(src, &arena);
    let mut bad = false;
    let mut n = 0;
    let ok = |s: usize, e: usize| s <= e && e <= src.len() && src.is_char_boundary(s) && src.is_char_boundary(e);
    while let Some(tok) = lexer.next() {
        n += 1;
        if !ok(tok.span.start, tok.span.end) {
            println!("BAD token span {}..{} (len {})", tok.span.start, tok.span.end, src.len());
            bad = true;
        }
        if n > 10 * src.len() + 10 {
            println!("lexer does not terminate");
            return 1;
        }
    }
    for d in lexer.errors.diagnostics.iter() {
        if !ok(d.span.start, d.span.end) {
            println!("BAD diagnostic span {}..{} (len {}) `{}`", d.span.start, d.span.end, src.len(), d.message);
            bad = true;
        }
        for l in d.labels.iter() {
            if !ok(l.span.start, l.span.end) {
                println!("BAD label span {}..{} (len {}) `{}`", l.span.start, l.span.end, src.len(), d.message);
                bad = true;
            }
        }
    }
    // the renderer must cope with whatever was emitted
    let rendered = lexer.errors.render_ansi(src, "<replay>");
    println!("lexed {n} tokens, {} diagnostics, rendered {} bytes", lexer.errors.diagnostics.len(), rendered.len());
    // the rest of the front end on the same text: parser, then (if it parsed) the static checker
    {
        use naijascript::resolver::Resolver;
        use naijascript::syntax::parser::Parser;
        let lexer = Lexer::new(src, &arena);
        let mut parser = Parser::new(lexer, &arena);
        let (root, perr) = parser.parse_program();
        for d in perr.diagnostics.iter() {
            if !ok(d.span.start, d.span.end) || d.labels.iter().any(|l| !ok(l.span.start, l.span.end)) {
                println!("BAD parser diagnostic span {}..{} (len {}) `{}`", d.span.start, d.span.end, src.len(), d.message);
                bad = true;
            }
        }
        let _ = perr.render_ansi(src, "<replay>");
        if !perr.has_errors() {
            let mut resolver = Resolver::new(&arena);
            resolver.resolve(root);
            for d in resolver.errors.diagnostics.iter() {
                if !ok(d.span.start, d.span.end) || d.labels.iter().any(|l| !ok(l.span.start, l.span.end)) {
                    println!("BAD resolver diagnostic span {}..{} `{}`", d.span.start, d.span.end, d.message);
                    bad = true;
                }
            }
            let _ = resolver.errors.render_ansi(src, "<replay>");
        }
    }
    u8::from(bad)
}

/// C10: two layouts of the same token sequence must lex to the same tokens (kind + text) and the
/// same diagnostics (messages, in order).  Exit 1 when they differ.
fn c10_layout(args: &[String]) -> u8 {
    use naijascript::syntax::scanner::Lexer;
    let (a, b) = (unhex(&args[0]), unhex(&args[1]));
    let (Ok(a), Ok(b)) = (std::str::from_utf8(&a), std::str::from_utf8(&b)) else {
        println!("not UTF-8: skipped");
        return 0;
    };
    let arena = Arena::new(4 * 1024 * 1024).unwrap();
    let lex = |src: &str| -> (Vec<String>, Vec<String>) {
        let mut lexer = Lexer::new(src, &arena);
        let mut toks = Vec::new();
        while let Some(t) = lexer.next() {
            toks.push(format!("{:?}", t.token));
            if toks.len() > 10 * src.len() + 10 {
                break;
            }
        }
        let diags = lexer.errors.diagnostics.iter().map(|d| d.message.to_string()).collect();
        (toks, diags)
    };
    let (ta, da) = lex(a);
    let (tb, db) = lex(b);
    println!("A {a:?}: tokens {ta:?} diagnostics {da:?}");
    println!("B {b:?}: tokens {tb:?} diagnostics {db:?}");
    u8::from(ta != tb || da != db)
}

/// C10 / 10.b: the first token of the text (hex) must be the expected one (Debug rendering, e.g.
/// `IfToSay`, `SmallPass`, `Identifier("if")`): a multi-word keyword is recognised whatever follows
/// its last word, as long as that is not a word byte.
fn c10_first_token(args: &[String]) -> u8 {
    use naijascript::syntax::scanner::Lexer;
    let bytes = unhex(&args[0]);
    let Ok(src) = std::str::from_utf8(&bytes) else {
        println!("not UTF-8: skipped");
        return 0;
    };
    let arena = Arena::new(4 * 1024 * 1024).unwrap();
    let mut lexer = Lexer::new(src, &arena);
    let first = lexer.next().map(|t| format!("{:?}", t.token)).unwrap_or_default();
    println!("text {src:?}: first token {first}, expected {}", args[1]);
    u8::from(first != args[1])
}
