//! Native replay driver: re-runs counterexamples against the real library (no stubs).
//! Built by the checks against the staged copy of /repo's current tree.
#![feature(allocator_api)]
#![allow(clippy::all, unused)]

use std::alloc::{Allocator, Layout};
use std::io::Read;
use std::process::ExitCode;

use naijascript::arena::Arena;
use naijascript::helpers::MEBI;
use naijascript::resolver::Resolver;
use naijascript::runtime::Runtime;
use naijascript::syntax::parser::Parser;
use naijascript::syntax::scanner::Lexer;

mod cases;

fn main() -> ExitCode {
    let args: Vec<String> = std::env::args().collect();
    if args.len() < 2 {
        eprintln!("usage: vreplay <case> [args..]");
        return ExitCode::from(2);
    }
    let code = match args[1].as_str() {
        "script" => script(&args[2..]),
        other => cases::dispatch(other, &args[2..]),
    };
    ExitCode::from(code)
}

/// `script <file> [analysis|plain]`: runs the library pipeline (separate frame arena, the
/// wiring of tests/common.rs::with_pipeline).  Prints one line per output value prefixed
/// with `OUT:`; diagnostics as `DIAG:<stage>:<severity?>:<message>` with label spans.
/// Exit 0 = ran, 3 = error diagnostics, panics/aborts propagate.
fn script(args: &[String]) -> u8 {
    let src = std::fs::read_to_string(&args[0]).expect("read script");
    let analysis = args.get(1).map(|s| s == "analysis").unwrap_or(true);
    let arena = Arena::new(64 * MEBI).unwrap();
    let frame = Arena::new(16 * MEBI).unwrap();
    let facts_arena = Arena::new(64 * MEBI).unwrap();
    let lexer = Lexer::new(&src, &arena);
    let mut parser = Parser::new(lexer, &arena);
    let (root, perr) = parser.parse_program();
    let mut bad = false;
    for d in perr.diagnostics.iter() {
        println!("DIAG:parse:{:?}:{}:{}..{}", d.severity, d.message, d.span.start, d.span.end);
        check_span(&src, d.span.start, d.span.end);
        for l in d.labels.iter() {
            check_span(&src, l.span.start, l.span.end);
        }
    }
    let _ = perr.render_ansi(&src, "<replay>");
    if perr.has_errors() {
        return 3;
    }
    let mut resolver = Resolver::with_facts_arena(&facts_arena, &arena);
    resolver.resolve(root);
    for d in resolver.errors.diagnostics.iter() {
        println!("DIAG:resolve:{:?}:{}:{}..{}", d.severity, d.message, d.span.start, d.span.end);
        check_span(&src, d.span.start, d.span.end);
        for l in d.labels.iter() {
            check_span(&src, l.span.start, l.span.end);
        }
    }
    let _ = resolver.errors.render_ansi(&src, "<replay>");
    if resolver.errors.has_errors() {
        return 3;
    }
    let (facts, plan) = resolver.into_artifacts();
    let mut runtime = Runtime::new(&arena, Some(&frame));
    let errs = if analysis {
        runtime.run_with_analysis(root, &facts, plan.as_ref())
    } else {
        runtime.run(root)
    };
    let mut rc = 0;
    for d in errs.diagnostics.iter() {
        println!("DIAG:runtime:{:?}:{}:{}..{}", d.severity, d.message, d.span.start, d.span.end);
    }
    if errs.has_errors() {
        rc = 3;
    }
    for v in runtime.output.iter() {
        println!("OUT:{v}");
    }
    rc
}

fn check_span(src: &str, start: usize, end: usize) {
    if !(start <= end && end <= src.len() && src.is_char_boundary(start) && src.is_char_boundary(end)) {
        println!("BADSPAN:{start}..{end} len={}", src.len());
    }
}
